// libFuzzer target for C04: first input byte selects one of the fixed handler configurations
// (file named by $ARGH_FUZZ_CONFIGS, same line protocol as argh_interp.cpp, one scenario per
// configuration without V/R lines), the remaining bytes are the argv words separated by NUL.
#define ARGH_FUZZ
#include "argh_interp.cpp"

static vector<Scenario> fuzzConfigs;

extern "C" int LLVMFuzzerInitialize(int*, char***)
{
   const char* p = getenv("ARGH_FUZZ_CONFIGS");
   if (!p) { fprintf(stderr, "ARGH_FUZZ_CONFIGS not set\n"); _exit(3); }
   fuzzConfigs = readScenarios(p);
   if (fuzzConfigs.empty()) { fprintf(stderr, "no configurations\n"); _exit(3); }
   const char* h = getenv("HOME");
   homeDir = h ? h : "/tmp";
   quiet = true;
   prog.open("");
   return 0;
}

extern "C" int LLVMFuzzerTestOneInput(const uint8_t* data, size_t size)
{
   if (size < 1) return 0;
   Scenario sc = fuzzConfigs[data[0] % fuzzConfigs.size()];
   vector<string> v{ "V", vh::hex("prog") };
   string w;
   unsigned nwords = 0;
   for (size_t i = 1; i <= size; ++i)
   {
      if (i == size || data[i] == 0)
      {
         v.push_back(w.empty() ? string("-") : vh::hex(w));
         w.clear();
         if (++nwords > 24) break;
      }
      else w += (char)data[i];
   }
   sc.lines.push_back(v);
   runScenario(sc, 0);
   return 0;
}
