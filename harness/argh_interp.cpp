// Interpreter harness for the Celma argument handler (C01-C08, C18).
//
// Reads scenarios (line protocol, all strings hex encoded) from --file, executes scenario
// indices [--start, --start+--count) on the REAL library and prints one result line each:
//
//   R <id> <status> <exception-type-hex> <what-hex> | <slot>=<dump> ... | O=<hex stdout> X=<hex stderr>
//
// status: ok | throw (std::exception) | throwx (something else) | setup (exception while defining) | exit
//
// Scenario lines:
//   S <id> <tag>                     start (tag = first word of the crash descriptor)
//   F <flags>                        single handler with these flags
//   GF <flags>                       use Groups::instance( os, err, flags)
//   G <name-hex> <flags>             new member handler of the group; following A/C lines belong to it
//   I <slot> <hex>                   initial value (elements separated by 0x1f)
//   A <slot> <keyspec-hex> <desc-hex> [opt...]
//   C <kind> <spec-hex>              all_of any_of one_of differ disjoint
//   B                                addBracketHandler( counting lambdas) on the current handler
//   SG <keyspec-hex> <flags> [opt..] start a sub-group handler (options mand / card=... apply to the sub-group argument) (following A lines define its arguments) ... SE ends it
//   SGT <slot> <keyspec-hex>         add-try of a sub-group argument whose handler has the single argument -z (slot)
//   AF <keyspec-hex>                 addArgumentFile( spec); "@HOME@" in an argv word is replaced by the scratch home directory
//   N <hex>                          checkEnvVarArgs( name)
//   P <relpath-hex> <content-hex>    file below $HOME
//   E <name-hex> <value-hex>         setenv (unset again after the scenario)
//   L <n>                            setUsageLineLength
//   Q <hex>                          only make_arg_array( string) -> words (C07 part 1)
//   V <hexword>...                   argv incl. argv[0]
//   VS <string-hex> [<prog-hex>]     instead of V: the arguments as ONE string, evaluated with evalArgumentString()
//   R                                run
#include "vh.hpp"

#include <algorithm>
#include <array>
#include <bitset>
#include <csetjmp>
#include <deque>
#include <forward_list>
#include <fstream>
#include <list>
#include <map>
#include <memory>
#include <optional>
#include <queue>
#include <set>
#include <sstream>
#include <stack>
#include <sys/stat.h>
#include <tuple>
#include <typeinfo>
#include <unordered_map>
#include <unordered_set>
#include <cxxabi.h>

#include "celma/appl/arg_string_2_array.hpp"
#include "celma/container/dynamic_bitset.hpp"
#include "celma/prog_args.hpp"
#include "celma/prog_args/groups.hpp"
#include "celma/prog_args/eval_argument_string.hpp"

using namespace celma::prog_args;
using celma::prog_args::detail::TypedArgBase;
using std::string;
using std::vector;

static vh::Progress prog;
static jmp_buf exitJmp;
static bool exitArmed = false;
static int exitCode = 0;

extern "C" void __real_exit(int);
extern "C" void __wrap_exit(int code)
{
   if (exitArmed)
   {
      exitArmed = false;
      exitCode = code;
      longjmp(exitJmp, 1);
   }
   __real_exit(code);
}

// ---------------------------------------------------------------- helpers

static string unhex(const string& h)
{
   string r;
   r.reserve(h.size() / 2);
   auto v = [](char c) { return c <= '9' ? c - '0' : (c | 32) - 'a' + 10; };
   for (size_t i = 0; i + 1 < h.size(); i += 2) r += char(v(h[i]) * 16 + v(h[i + 1]));
   return r;
}
static string hexs(const string& s) { return s.empty() ? string("-") : vh::hex(s); }
static string unhexf(const string& h) { return h == "-" ? string() : unhex(h); }

static vector<string> split(const string& s, char sep)
{
   vector<string> r;
   if (s.empty()) return r;
   size_t p = 0;
   for (;;)
   {
      size_t q = s.find(sep, p);
      if (q == string::npos) { r.push_back(s.substr(p)); break; }
      r.push_back(s.substr(p, q - p));
      p = q + 1;
   }
   return r;
}

// ---------------------------------------------------------------- value dump / parse

static string dv(bool v) { return v ? "1" : "0"; }
static string dv(int v) { return std::to_string(v); }
static string dv(long v) { return std::to_string(v); }
static string dv(unsigned v) { return std::to_string(v); }
static string dv(unsigned long v) { return std::to_string(v); }
static string dv(long long v) { return std::to_string(v); }
static string dv(double v) { char b[64]; snprintf(b, sizeof b, "%a", v); return b; }
static string dv(const string& v) { return "h" + vh::hex(v); }
static string dv(const LevelCounter& v) { return std::to_string(v.value()); }
template <typename T> static string dv(const std::optional<T>& v) { return v.has_value() ? dv(*v) : string("~"); }

static void pv(bool& d, const string& s) { d = s == "1" || s == "true"; }
static void pv(int& d, const string& s) { d = atoi(s.c_str()); }
static void pv(long& d, const string& s) { d = atol(s.c_str()); }
static void pv(unsigned& d, const string& s) { d = (unsigned)strtoul(s.c_str(), nullptr, 10); }
static void pv(long long& d, const string& s) { d = atoll(s.c_str()); }
static void pv(double& d, const string& s) { d = strtod(s.c_str(), nullptr); }
static void pv(string& d, const string& s) { d = s; }
static void pv(LevelCounter& d, const string& s) { d = atoi(s.c_str()); }
template <typename T> static void pv(std::optional<T>& d, const string& s) { T t{}; pv(t, s); d = t; }

template <typename It> static string dseq(It b, It e)
{
   string r = "[";
   for (bool first = true; b != e; ++b) { if (!first) r += ","; first = false; r += dv(*b); }
   return r + "]";
}
template <typename C> static string dsorted(const C& c)
{
   vector<string> v;
   for (auto const& e : c) v.push_back(dv(e));
   std::sort(v.begin(), v.end());
   string r = "[";
   for (size_t i = 0; i < v.size(); ++i) { if (i) r += ","; r += v[i]; }
   return r + "]";
}

// ---------------------------------------------------------------- slots

struct SlotBase
{
   virtual ~SlotBase() = default;
   virtual TypedArgBase* dest(const string& name) = 0;
   virtual void init(const vector<string>& elems) = 0;
   virtual string dump() const = 0;
   /// typed checks: kind lower/upper/range with textual bounds
   virtual celma::prog_args::detail::ICheck* check(const string& kind, const string& a, const string& b) = 0;
};

template <typename N> static celma::prog_args::detail::ICheck* numCheck(const string& kind, const string& a, const string& b)
{
   N x{}, y{};
   pv(x, a);
   if (kind == "lower") return lower<N>(x);
   if (kind == "upper") return upper<N>(x);
   pv(y, b);
   return range<N>(x, y);
}

template <typename T, typename CheckT> struct ScalarSlot : SlotBase
{
   std::unique_ptr<T> v{ new T{} };
   TypedArgBase* dest(const string& name) override { return destination(*v, name); }
   void init(const vector<string>& e) override { if (!e.empty()) pv(*v, e[0]); else *v = T{}; }
   string dump() const override { return dv(*v); }
   celma::prog_args::detail::ICheck* check(const string& k, const string& a, const string& b) override { return numCheck<CheckT>(k, a, b); }
};

/// sequence-like std containers with push_back / insert
template <typename C, typename E, typename CheckT> struct ContSlot : SlotBase
{
   std::unique_ptr<C> v{ new C{} };
   TypedArgBase* dest(const string& name) override { return destination(*v, name); }
   void init(const vector<string>& e) override
   {
      vector<E> tmp;
      for (auto const& s : e) { E x{}; pv(x, s); tmp.push_back(x); }
      fill(*v, tmp);
   }
   template <typename X> static auto fill(X& c, const vector<E>& t) -> decltype(c.push_back(t[0]), void()) { c.clear(); for (auto const& x : t) c.push_back(x); }
   static void fill(std::set<E>& c, const vector<E>& t) { c.clear(); c.insert(t.begin(), t.end()); }
   static void fill(std::multiset<E>& c, const vector<E>& t) { c.clear(); c.insert(t.begin(), t.end()); }
   static void fill(std::unordered_set<E>& c, const vector<E>& t) { c.clear(); c.insert(t.begin(), t.end()); }
   static void fill(std::forward_list<E>& c, const vector<E>& t) { c.clear(); c.assign(t.begin(), t.end()); }
   static void fill(std::queue<E>& c, const vector<E>& t) { c = std::queue<E>(); for (auto const& x : t) c.push(x); }
   static void fill(std::stack<E>& c, const vector<E>& t) { c = std::stack<E>(); for (auto const& x : t) c.push(x); }
   static void fill(std::priority_queue<E>& c, const vector<E>& t) { c = std::priority_queue<E>(); for (auto const& x : t) c.push(x); }

   template <typename X> static auto dumpc(const X& c) -> decltype(c.begin(), string()) { return dseq(c.begin(), c.end()); }
   static string dumpc(const std::unordered_set<E>& c) { return dsorted(c); }
   static string dumpc(std::queue<E> c) { vector<E> t; while (!c.empty()) { t.push_back(c.front()); c.pop(); } return dseq(t.begin(), t.end()); }
   static string dumpc(std::stack<E> c) { vector<E> t; while (!c.empty()) { t.push_back(c.top()); c.pop(); } return dseq(t.begin(), t.end()); }
   static string dumpc(std::priority_queue<E> c) { vector<E> t; while (!c.empty()) { t.push_back(c.top()); c.pop(); } return dseq(t.begin(), t.end()); }
   string dump() const override { return dumpc(*v); }
   celma::prog_args::detail::ICheck* check(const string& k, const string& a, const string& b) override { return numCheck<CheckT>(k, a, b); }
};

struct CArraySlot : SlotBase
{
   struct Box { int a[4]; };
   std::unique_ptr<Box> v{ new Box{ { 0, 0, 0, 0 } } };
   TypedArgBase* dest(const string& name) override { return destination(v->a, name); }
   void init(const vector<string>& e) override { for (size_t i = 0; i < 4; ++i) v->a[i] = i < e.size() ? atoi(e[i].c_str()) : 0; }
   string dump() const override { return dseq(v->a, v->a + 4); }
   celma::prog_args::detail::ICheck* check(const string& k, const string& a, const string& b) override { return numCheck<int>(k, a, b); }
};

struct StdArraySlot : SlotBase
{
   std::unique_ptr<std::array<int, 3>> v{ new std::array<int, 3>{ { 0, 0, 0 } } };
   TypedArgBase* dest(const string& name) override { return destination(*v, name); }
   void init(const vector<string>& e) override { for (size_t i = 0; i < 3; ++i) (*v)[i] = i < e.size() ? atoi(e[i].c_str()) : 0; }
   string dump() const override { return dseq(v->begin(), v->end()); }
   celma::prog_args::detail::ICheck* check(const string& k, const string& a, const string& b) override { return numCheck<int>(k, a, b); }
};

struct TupleSlot : SlotBase
{
   std::unique_ptr<std::tuple<int, string, double>> v{ new std::tuple<int, string, double>{ 0, "", 0.0 } };
   TypedArgBase* dest(const string& name) override { return destination(*v, name); }
   void init(const vector<string>& e) override
   {
      if (e.size() > 0) std::get<0>(*v) = atoi(e[0].c_str());
      if (e.size() > 1) std::get<1>(*v) = e[1];
      if (e.size() > 2) std::get<2>(*v) = strtod(e[2].c_str(), nullptr);
   }
   string dump() const override { return "[" + dv(std::get<0>(*v)) + "," + dv(std::get<1>(*v)) + "," + dv(std::get<2>(*v)) + "]"; }
   celma::prog_args::detail::ICheck* check(const string& k, const string& a, const string& b) override { return numCheck<int>(k, a, b); }
};

struct BitsetSlot : SlotBase
{
   std::unique_ptr<std::bitset<16>> v{ new std::bitset<16>() };
   TypedArgBase* dest(const string& name) override { return destination(*v, name); }
   void init(const vector<string>& e) override { v->reset(); for (auto const& s : e) v->set(atoi(s.c_str())); }
   string dump() const override { return "b" + v->to_string(); }
   celma::prog_args::detail::ICheck* check(const string& k, const string& a, const string& b) override { return numCheck<int>(k, a, b); }
};

/// bitset with more than one storage word (a wrong position then leaves the object instead of wrapping inside the word)
struct BigBitsetSlot : SlotBase
{
   std::unique_ptr<std::bitset<100>> v{ new std::bitset<100>() };
   TypedArgBase* dest(const string& name) override { return destination(*v, name); }
   void init(const vector<string>& e) override { v->reset(); for (auto const& s : e) v->set(atoi(s.c_str())); }
   string dump() const override { return "b" + v->to_string(); }
   celma::prog_args::detail::ICheck* check(const string& k, const string& a, const string& b) override { return numCheck<int>(k, a, b); }
};

struct VecBoolSlot : SlotBase
{
   std::unique_ptr<vector<bool>> v{ new vector<bool>() };
   TypedArgBase* dest(const string& name) override { return destination(*v, name); }
   /// init: first element = size, rest = set positions
   void init(const vector<string>& e) override
   {
      v->clear();
      if (e.empty()) return;
      v->resize(atoi(e[0].c_str()));
      for (size_t i = 1; i < e.size(); ++i) { size_t p = atoi(e[i].c_str()); if (p < v->size()) (*v)[p] = true; }
   }
   string dump() const override
   {
      if (v->size() > 100000) return "V" + std::to_string(v->size()) + ":" + std::to_string(std::count(v->begin(), v->end(), true));
      string r = "v"; for (bool b : *v) r += b ? '1' : '0'; return r;
   }
   celma::prog_args::detail::ICheck* check(const string& k, const string& a, const string& b) override { return numCheck<int>(k, a, b); }
};

struct DynBitsetSlot : SlotBase
{
   std::unique_ptr<celma::container::DynamicBitset> v{ new celma::container::DynamicBitset(8) };
   TypedArgBase* dest(const string& name) override { return destination(*v, name); }
   void init(const vector<string>& e) override
   {
      size_t n = e.empty() ? 8 : atoi(e[0].c_str());
      v.reset(new celma::container::DynamicBitset(n));
      for (size_t i = 1; i < e.size(); ++i) { size_t p = atoi(e[i].c_str()); if (p < n) v->set(p); }
   }
   string dump() const override
   {
      if (v->size() > 100000) return "V" + std::to_string(v->size()) + ":" + std::to_string(v->count());
      string r = "v"; for (size_t i = 0; i < v->size(); ++i) r += v->test(i) ? '1' : '0'; return r;
   }
   celma::prog_args::detail::ICheck* check(const string& k, const string& a, const string& b) override { return numCheck<int>(k, a, b); }
};

template <typename M> struct MapSlot : SlotBase
{
   std::unique_ptr<M> v{ new M() };
   TypedArgBase* dest(const string& name) override { return destination(*v, name); }
   /// init elements "key\x1ekey"
   void init(const vector<string>& e) override
   {
      v->clear();
      for (auto const& s : e)
      {
         auto kv = split(s, '\x1e');
         if (kv.size() != 2) continue;
         typename M::key_type k{}; typename M::mapped_type m{};
         pv(k, kv[0]); pv(m, kv[1]);
         v->insert({ k, m });
      }
   }
   string dump() const override
   {
      vector<string> t;
      for (auto const& kv : *v) t.push_back(dv(kv.first) + ":" + dv(kv.second));
      if (!std::is_same<M, std::multimap<int, string>>::value) std::sort(t.begin(), t.end());
      string r = "[";
      for (size_t i = 0; i < t.size(); ++i) { if (i) r += ","; r += t[i]; }
      return r + "]";
   }
   celma::prog_args::detail::ICheck* check(const string& k, const string& a, const string& b) override { return numCheck<int>(k, a, b); }
};

static SlotBase* makeSlot(const string& name)
{
   // kind = leading letters of the slot name
   string k;
   for (char c : name) { if (isalpha((unsigned char)c)) k += c; else break; }
   if (k == "b") return new ScalarSlot<bool, int>();
   if (k == "i") return new ScalarSlot<int, int>();
   if (k == "l") return new ScalarSlot<long, long>();
   if (k == "u") return new ScalarSlot<unsigned, unsigned>();
   if (k == "q") return new ScalarSlot<long long, long long>();
   if (k == "d") return new ScalarSlot<double, double>();
   if (k == "s") return new ScalarSlot<string, string>();
   if (k == "oi") return new ScalarSlot<std::optional<int>, int>();
   if (k == "os") return new ScalarSlot<std::optional<string>, string>();
   if (k == "ob") return new ScalarSlot<std::optional<bool>, int>();
   if (k == "lc") return new ScalarSlot<LevelCounter, int>();
   if (k == "vi") return new ContSlot<vector<int>, int, int>();
   if (k == "vs") return new ContSlot<vector<string>, string, string>();
   if (k == "vd") return new ContSlot<vector<double>, double, double>();
   if (k == "li") return new ContSlot<std::list<int>, int, int>();
   if (k == "ds") return new ContSlot<std::deque<string>, string, string>();
   if (k == "si") return new ContSlot<std::set<int>, int, int>();
   if (k == "ss") return new ContSlot<std::set<string>, string, string>();
   if (k == "msi") return new ContSlot<std::multiset<int>, int, int>();
   if (k == "us") return new ContSlot<std::unordered_set<string>, string, string>();
   if (k == "fl") return new ContSlot<std::forward_list<int>, int, int>();
   if (k == "qu") return new ContSlot<std::queue<int>, int, int>();
   if (k == "st") return new ContSlot<std::stack<int>, int, int>();
   if (k == "pq") return new ContSlot<std::priority_queue<int>, int, int>();
   if (k == "ca") return new CArraySlot();
   if (k == "ar") return new StdArraySlot();
   if (k == "tu") return new TupleSlot();
   if (k == "bs") return new BitsetSlot();
   if (k == "bb") return new BigBitsetSlot();
   if (k == "vb") return new VecBoolSlot();
   if (k == "db") return new DynBitsetSlot();
   if (k == "mp") return new MapSlot<std::map<string, int>>();
   if (k == "mm") return new MapSlot<std::multimap<int, string>>();
   if (k == "um") return new MapSlot<std::unordered_map<string, string>>();
   return nullptr;
}

// ---------------------------------------------------------------- scenario

struct Scenario
{
   string id, tag;
   vector<vector<string>> lines;   // tokenised
};

static vector<Scenario> readScenarios(const string& path)
{
   vector<Scenario> all;
   std::ifstream in(path);
   string line;
   while (std::getline(in, line))
   {
      if (line.empty()) continue;
      vector<string> tok = split(line, ' ');
      if (tok[0] == "S")
      {
         all.emplace_back();
         all.back().id = tok.size() > 1 ? tok[1] : "?";
         all.back().tag = tok.size() > 2 ? tok[2] : "scenario";
      }
      else if (!all.empty()) all.back().lines.push_back(tok);
   }
   return all;
}

static string excName(const std::exception& e)
{
   int st = 0;
   char* d = abi::__cxa_demangle(typeid(e).name(), nullptr, nullptr, &st);
   string r = d ? d : typeid(e).name();
   free(d);
   return r;
}

static void applyOpt(TypedArgBase* arg, SlotBase* slot, const string& opt, Handler& h)
{
   string k = opt, v;
   auto eq = opt.find('=');
   if (eq != string::npos) { k = opt.substr(0, eq); v = opt.substr(eq + 1); }
   using VM = Handler::ValueMode;
   if (k == "mand") arg->setIsMandatory();
   else if (k == "vm") arg->setValueMode(v == "none" ? VM::none : v == "opt" ? VM::optional : v == "cmd" ? VM::command : VM::required);
   else if (k == "card")
   {
      auto p = split(v, ':');
      if (p[0] == "none") arg->setCardinality();
      else if (p[0] == "max") arg->setCardinality(cardinality_max(atoi(p[1].c_str())));
      else if (p[0] == "exact") arg->setCardinality(cardinality_exact(atoi(p[1].c_str())));
      else if (p[0] == "range") arg->setCardinality(cardinality_range(atoi(p[1].c_str()), atoi(p[2].c_str())));
   }
   else if (k == "lower" || k == "upper") arg->addCheck(slot->check(k, unhexf(v), ""));
   else if (k == "range") { auto p = split(v, ':'); arg->addCheck(slot->check(k, unhexf(p[0]), unhexf(p[1]))); }
   else if (k == "values") arg->addCheck(values(unhexf(v)));
   else if (k == "valuesic") arg->addCheck(values(unhexf(v), true));
   else if (k == "minlen") arg->addCheck(minLength(atoi(v.c_str())));
   else if (k == "maxlen") arg->addCheck(maxLength(atoi(v.c_str())));
   else if (k == "pattern") arg->addCheck(pattern(unhexf(v)));
   else if (k == "fmt")
   {
      if (v == "upper") arg->addFormat(uppercase());
      else if (v == "lower") arg->addFormat(lowercase());
      else if (v.rfind("anycase:", 0) == 0) arg->addFormat(anycase(unhexf(v.substr(8))));
   }
   else if (k == "fmtkey") { if (v == "upper") arg->addFormatKey(uppercase()); else arg->addFormatKey(lowercase()); }
   else if (k == "fmtval") { if (v == "upper") arg->addFormatValue(uppercase()); else arg->addFormatValue(lowercase()); }
   else if (k == "fmtpos")
   {
      auto p = split(v, ':');
      if (p[1] == "upper") arg->addFormatPos(atoi(p[0].c_str()), uppercase());
      else arg->addFormatPos(atoi(p[0].c_str()), lowercase());
   }
   else if (k == "sep") arg->setListSep((char)atoi(v.c_str()));
   else if (k == "clear") arg->setClearBeforeAssign();
   else if (k == "sort") arg->setSortData();
   else if (k == "unique") arg->setUniqueData(false);
   else if (k == "uniqueerr") arg->setUniqueData(true);
   else if (k == "multi") arg->setTakesMultiValue();
   else if (k == "hidden") arg->setIsHidden();
   else if (k == "depr") arg->setIsDeprecated();
   else if (k == "repl") arg->setReplacedBy(unhexf(v));
   else if (k == "excl") arg->addConstraint(excludes(unhexf(v)));
   else if (k == "req") arg->addConstraint(requiresArg(unhexf(v)));
   else if (k == "unset") arg->unsetFlag();
   else if (k == "printdef") arg->setPrintDefault(v == "1");
   else if (k == "pairfmt") arg->setPairFormat(unhexf(v));
   else if (k == "allowmix") arg->setAllowMixIncSet();
   else if (k == "checkorig") arg->checkOriginalValue(v == "1");
   else throw std::logic_error("interp: unknown option " + opt);
   (void)h;
}

struct ArgvBlock
{
   // exact-size heap blocks: argv array of argc+1 pointers, every word its own malloc block
   int argc = 0;
   char** argv = nullptr;
   explicit ArgvBlock(const vector<string>& words)
   {
      argc = (int)words.size();
      argv = static_cast<char**>(malloc(sizeof(char*) * (argc + 1)));
      for (int i = 0; i < argc; ++i)
      {
         argv[i] = static_cast<char*>(malloc(words[i].size() + 1));
         memcpy(argv[i], words[i].c_str(), words[i].size() + 1);
      }
      argv[argc] = nullptr;
   }
   ~ArgvBlock()
   {
      for (int i = 0; i < argc; ++i) free(argv[i]);
      free(argv);
   }
};

static string homeDir;
static bool quiet = false;   // fuzz target: no result lines

static void mkdirs(const string& path)
{
   for (size_t p = 1; p < path.size(); ++p)
      if (path[p] == '/') { string d = path.substr(0, p); mkdir(d.c_str(), 0700); }
}

static void runScenario(const Scenario& sc, uint64_t idx)
{
   std::ostringstream out, err;
   std::map<string, std::unique_ptr<SlotBase>> slots;
   vector<string> slotOrder;
   auto getSlot = [&](const string& n) -> SlotBase* {
      auto it = slots.find(n);
      if (it != slots.end()) return it->second.get();
      SlotBase* s = makeSlot(n);
      if (!s) throw std::logic_error("interp: unknown slot " + n);
      slots[n].reset(s);
      slotOrder.push_back(n);
      return s;
   };
   vector<string> createdFiles, setEnvs;
   string status = "ok", etype, ewhat, addFails;
   bool useGroups = false;
   int groupFlags = 0;
   std::unique_ptr<Handler> single;
   vector<Groups::SharedArgHndl> members;
   Handler* cur = nullptr;
   Handler* parent = nullptr;
   vector<std::unique_ptr<Handler>> subs;
   int brackets = 0;
   vector<string> words;
   bool haveArgv = false, useString = false, haveProgName = false;
   string argString, progName;
   string descr = sc.tag + " scenario=" + sc.id;
   prog.set(idx, descr + " phase=setup");

   auto report = [&]() {
      string r = "R " + sc.id + " " + status + " " + hexs(etype) + " " + hexs(ewhat) + " |";
      for (auto const& n : slotOrder) r += " " + n + "=" + slots[n]->dump();
      r += " | O=" + hexs(out.str()) + " X=" + hexs(err.str()) + " T=" + (addFails.empty() ? string("-") : addFails);
      if (!quiet) puts(r.c_str());
   };

   try
   {
      for (auto const& t : sc.lines)
      {
         const string& c = t[0];
         if (c == "F") { single.reset(new Handler(out, err, atoi(t[1].c_str()))); cur = single.get(); }
         else if (c == "GF") { useGroups = true; groupFlags = atoi(t[1].c_str()); Groups::reset(); Groups::instance(out, err, groupFlags); }
         else if (c == "G")
         {
            if (!useGroups) { useGroups = true; Groups::reset(); Groups::instance(out, err, 0); }
            members.push_back(Groups::instance().getArgHandler(unhexf(t[1]), atoi(t[2].c_str())));
            cur = members.back().get();
         }
         else if (c == "I") getSlot(t[1])->init(split(unhexf(t.size() > 2 ? t[2] : "-"), '\x1f'));
         else if (c == "AT")
         {
            // add-try (C05): a refused definition is recorded, the scenario continues
            if (!cur) { single.reset(new Handler(out, err, 0)); cur = single.get(); }
            SlotBase* s = getSlot(t[1]);
            try
            {
               TypedArgBase* a = cur->addArgument(unhexf(t[2]), s->dest(t[1]), unhexf(t[3]));
               for (size_t i = 4; i < t.size(); ++i) applyOpt(a, s, t[i], *cur);
            }
            catch (const std::exception& e) { addFails += (addFails.empty() ? "" : ",") + t[1] + ":" + vh::hex(excName(e)); }
         }
         else if (c == "SGT")
         {
            // add-try of a sub-group argument (C05): the sub-group handler has one argument -z bound to the slot
            if (!cur) { single.reset(new Handler(out, err, 0)); cur = single.get(); }
            SlotBase* s = getSlot(t[1]);
            try
            {
               subs.emplace_back(new Handler(*cur, 0));
               subs.back()->addArgument("z", s->dest(t[1]), "inner");
               cur->addArgument(unhexf(t[2]), *subs.back(), "sub group");
            }
            catch (const std::exception& e) { addFails += (addFails.empty() ? "" : ",") + t[1] + ":" + vh::hex(excName(e)); }
         }
         else if (c == "A")
         {
            if (!cur) { single.reset(new Handler(out, err, 0)); cur = single.get(); }
            SlotBase* s = getSlot(t[1]);
            TypedArgBase* a = cur->addArgument(unhexf(t[2]), s->dest(t[1]), unhexf(t[3]));
            for (size_t i = 4; i < t.size(); ++i) applyOpt(a, s, t[i], *cur);
         }
         else if (c == "C")
         {
            string spec = unhexf(t[2]);
            if (t[1] == "all_of") cur->addConstraint(all_of(spec));
            else if (t[1] == "any_of") cur->addConstraint(any_of(spec));
            else if (t[1] == "one_of") cur->addConstraint(one_of(spec));
            else if (t[1] == "differ") cur->addConstraint(differ(spec));
            else if (t[1] == "disjoint") cur->addConstraint(disjoint(spec));
         }
         else if (c == "B") { if (!cur) { single.reset(new Handler(out, err, 0)); cur = single.get(); } cur->addBracketHandler([&brackets]() { ++brackets; }, [&brackets]() { --brackets; }); }
         else if (c == "SG")
         {
            if (!cur) { single.reset(new Handler(out, err, 0)); cur = single.get(); }
            subs.emplace_back(new Handler(*cur, atoi(t[2].c_str())));
            TypedArgBase* sga = cur->addArgument(unhexf(t[1]), *subs.back(), "sub group");
            for (size_t i = 3; i < t.size(); ++i) applyOpt(sga, nullptr, t[i], *cur);     // mand, card=...
            parent = cur;
            cur = subs.back().get();
         }
         else if (c == "SE") { if (parent) { cur = parent; parent = nullptr; } }
         else if (c == "N") cur->checkEnvVarArgs(unhexf(t[1]));
         else if (c == "L") cur->setUsageLineLength(atoi(t[1].c_str()));
         else if (c == "P")
         {
            string p = homeDir + "/" + unhexf(t[1]);
            mkdirs(p);
            std::ofstream f(p, std::ios::binary);
            string content = unhexf(t.size() > 2 ? t[2] : "-");
            // "@HOME@" inside a file (an --arg-file line that includes another file) is the scratch home directory
            for (auto hp = content.find("@HOME@"); hp != string::npos; hp = content.find("@HOME@", hp)) content.replace(hp, 6, homeDir);
            f << content;
            createdFiles.push_back(p);
         }
         else if (c == "E")
         {
            string n = unhexf(t[1]), v = unhexf(t.size() > 2 ? t[2] : "-");
            for (auto hp = v.find("@HOME@"); hp != string::npos; hp = v.find("@HOME@", hp)) v.replace(hp, 6, homeDir);
            setenv(n.c_str(), v.c_str(), 1);
            setEnvs.push_back(n);
         }
         else if (c == "AF") { if (!cur) { single.reset(new Handler(out, err, 0)); cur = single.get(); } cur->addArgumentFile(unhexf(t[1])); }
         else if (c == "V")
         {
            words.clear();
            for (size_t i = 1; i < t.size(); ++i)
            {
               string w = unhexf(t[i]);
               // "@HOME@" stands for the scratch home directory of this run (argument file paths)
               auto hp = w.find("@HOME@");
               if (hp != string::npos) w.replace(hp, 6, homeDir);
               words.push_back(w);
            }
            haveArgv = true;
         }
         else if (c == "VS")
         {
            argString = unhexf(t[1]);
            for (auto hp = argString.find("@HOME@"); hp != string::npos; hp = argString.find("@HOME@", hp)) argString.replace(hp, 6, homeDir);
            progName = t.size() > 2 ? unhexf(t[2]) : string();
            haveProgName = t.size() > 2;
            useString = haveArgv = true;
         }
         else if (c == "Q" || c == "Q1")
         {
            // C07 part 1: string -> argv
            prog.set(idx, descr + " phase=make_arg_array");
            auto as2a = c == "Q1" ? celma::appl::make_arg_array("prog " + unhexf(t[1])) : celma::appl::make_arg_array(unhexf(t[1]), "prog");
            string r = "W " + sc.id + " " + std::to_string(as2a.mArgC);
            for (int i = 0; i < as2a.mArgC; ++i) r += string(" ") + hexs(as2a.mpArgV[i]);
            r += as2a.mpArgV[as2a.mArgC] == nullptr ? " null" : " NOTNULL";
            puts(r.c_str());
         }
         else if (c == "R") { /* below */ }
      }
   }
   catch (const std::exception& e) { status = "setup"; etype = excName(e); ewhat = e.what(); }
   catch (...) { status = "setup"; etype = "non-std"; }

   if (status == "ok" && haveArgv)
   {
      prog.set(idx, descr + " phase=eval");
      ArgvBlock ab(words);
      exitArmed = true;
      if (setjmp(exitJmp) == 0)
      {
         try
         {
            if (useString)
            {
               if (useGroups) evalArgumentString(argString, haveProgName ? progName.c_str() : nullptr);
               else if (cur) evalArgumentString(*cur, argString, haveProgName ? progName.c_str() : nullptr);
            }
            else if (useGroups) Groups::instance().evalArguments(ab.argc, ab.argv);
            else if (cur) cur->evalArguments(ab.argc, ab.argv);
         }
         catch (const std::exception& e) { status = "throw"; etype = excName(e); ewhat = e.what(); }
         catch (...) { status = "throwx"; etype = "non-std"; }
      }
      else { status = "exit"; etype = std::to_string(exitCode); }
      exitArmed = false;
   }
   prog.set(idx, descr + " phase=report");
   report();
   prog.set(idx, descr + " phase=teardown");
   members.clear();
   single.reset();
   subs.clear();
   if (useGroups) Groups::reset();
   for (auto const& f : createdFiles) unlink(f.c_str());
   for (auto const& n : setEnvs) unsetenv(n.c_str());
}

#ifndef ARGH_FUZZ
int main(int argc, char** argv)
{
   vh::Args a = vh::parse_args(argc, argv);
   prog.open(a.progress);
   string file = a.gets("file");
   homeDir = a.gets("home");
   if (file.empty()) { fprintf(stderr, "need --file\n"); return 3; }
   if (!homeDir.empty()) { setenv("HOME", homeDir.c_str(), 1); mkdir(homeDir.c_str(), 0700); }
   auto all = readScenarios(file);
   uint64_t end = a.count ? a.start + a.count : all.size();
   if (end > all.size()) end = all.size();
   for (uint64_t i = a.start; i < end; ++i)
   {
      runScenario(all[i], i);
      fflush(stdout);
   }
   puts("DONE");
   fflush(stdout);
   return 0;
}
#endif
