// C12 - dynamic bitset behaves like a growable reference bit vector.
//
// oracle: reference model = std::vector<char> of bits on which the *documented* effect of every
// operation is applied; after every operation the complete state is read back (size, test) and
// compared, then every observer (test, const [], count, any, none, all, size, to_string,
// to_ulong, ==, forward / reverse iteration in all six forms) is compared with the model.
// metamorphic: a op= b versus a op b (& | ^ << >>).  growth (set/reset/flip/[] with pos >= size):
// the new size is adopted from the implementation, required: new size > pos, old bits kept, new
// bits zero.  Where the header documentation is silent the oracle abstains and counts it
// (STAT abst.*): size after reset(), size after a shift (only: never smaller), &,|,^ between
// different sizes (the flags are judged against the zero-extended operation, the result size is adopted), == between different sizes,
// ++ on an end iterator, -- on an iterator that has no previous element.
// sanitizer / _GLIBCXX_ASSERTIONS reports are classified by the driver.
#include "vh.hpp"

#include <bitset>
#include <cstdarg>
#include <functional>
#include <stdexcept>
#include <string>
#include <typeinfo>
#include <vector>

#include "celma/container/dynamic_bitset.hpp"

using celma::container::DynamicBitset;

typedef std::vector<char> Model;

namespace {

vh::Out out;
vh::Progress prog;
bool verbose = false;
std::string gOp, gDescr;
uint64_t gHist = 0;
uint64_t gIdx = 0;

const size_t ULBITS = sizeof(unsigned long) * 8;

std::string fmt(const char* f, ...)
{
   char b[512];
   va_list ap;
   va_start(ap, f);
   vsnprintf(b, sizeof b, f, ap);
   va_end(ap);
   return b;
}

/// most significant (= highest position) first, like std::bitset::to_string
std::string bitsOf(const Model& m, char zero = '0', char one = '1')
{
   std::string s(m.size(), zero);
   for (size_t i = 0; i < m.size(); ++i)
      if (m[i]) s[m.size() - 1 - i] = one;
   return s;
}

std::string show(const Model& m)
{
   return "[n=" + std::to_string(m.size()) + " " + bitsOf(m) + "]";
}

std::string showSeq(const std::vector<size_t>& v)
{
   std::string s = "(";
   for (size_t i = 0; i < v.size() && i < 40; ++i) s += (i ? "," : "") + std::to_string(v[i]);
   if (v.size() > 40) s += ",...";
   return s + ")";
}

void beginOp(const std::string& name, const std::string& args)
{
   gOp = name;
   gDescr = name + " " + args;
   prog.set(gIdx, gDescr);
   out.stat("op." + name);
   out.stat("steps");
   gHist = vh::hash_str(gDescr, gHist);
   if (verbose) printf("# %s\n", gDescr.c_str());
}

/// refuting observation about the operation that is being executed
void fail(const std::string& kind, const std::string& detail)
{
   out.viol(gOp + "|" + kind, "{" + gDescr + "}: " + detail);
}

/// refuting observation about an observer (state already known to equal the model)
void failObs(const std::string& key, const std::string& detail)
{
   out.viol(key, "after {" + gDescr + "}: " + detail);
}

std::string excName(const std::exception& e)
{
   return std::string(typeid(e).name()) + " '" + e.what() + "'";
}

/// runs f; an exception that escapes is a violation (no operation used through this helper documents one)
template <typename F> bool guarded(F&& f)
{
   try { f(); return true; }
   catch (const std::exception& e) { fail("exception", "unexpected exception " + excName(e)); }
   catch (...) { fail("exception", "unexpected exception of unknown type"); }
   return false;
}

std::vector<bool> toVB(const Model& m)
{
   std::vector<bool> v(m.size());
   for (size_t i = 0; i < m.size(); ++i) v[i] = m[i] != 0;
   return v;
}

/// when set, mk() hands over storage whose bits behind size() are 1 (left over from a larger
/// std::vector<bool>, moved into the bitset): an implementation that reads behind its size inside
/// the last storage word - invisible to ASan - then sees ones instead of zeros
bool gDirty = false;

DynamicBitset mk(const Model& m)
{
   if (!gDirty) return DynamicBitset(toVB(m));
   std::vector<bool> v(m.size() + 70, true);
   v.resize(m.size());
   for (size_t i = 0; i < m.size(); ++i) v[i] = m[i] != 0;
   out.stat("dirty_storage_bitsets");
   return DynamicBitset(std::move(v));
}

/// the state as the implementation reports it through size() and test()
Model readState(const DynamicBitset& d)
{
   Model a(d.size(), 0);
   for (size_t i = 0; i < a.size(); ++i)
   {
      try { a[i] = d.test(i) ? 1 : 0; }
      catch (const std::exception& e)
      {
         out.viol("test(pos)|exception-inside-size", "{" + gDescr + "}: test(" + std::to_string(i) + ") with size " +
                  std::to_string(a.size()) + " threw " + excName(e));
      }
   }
   return a;
}

/// compares the state with the model; on a mismatch reports and adopts the actual state
/// so that one defect does not cascade through the rest of a history
bool expectState(const DynamicBitset& d, Model& m, const char* kind = "result")
{
   Model a = readState(d);
   if (a == m) return true;
   fail(a.size() != m.size() ? "size" : kind, "expected " + show(m) + " got " + show(a));
   m = a;
   return false;
}

std::vector<size_t> setPositions(const Model& m)
{
   std::vector<size_t> v;
   for (size_t i = 0; i < m.size(); ++i) if (m[i]) v.push_back(i);
   return v;
}

// ------------------------------------------------------------------ observers

template <typename F> void expectOutOfRange(const char* key, size_t pos, size_t size, F&& f)
{
   out.stat("exc.expected_out_of_range");
   try
   {
      bool v = f();
      failObs(std::string(key) + "|no-exception", fmt("pos=%zu size=%zu returned %d, documented: std::out_of_range", pos, size, (int)v));
   }
   catch (const std::out_of_range&) { }
   catch (const std::exception& e) { failObs(std::string(key) + "|wrong-exception", fmt("pos=%zu size=%zu threw ", pos, size) + excName(e)); }
}

template <typename GB, typename GE>
void collect(const std::string& key, const char* form, GB gb, GE ge, const std::vector<size_t>& expect, size_t limit)
{
   std::vector<size_t> got;
   out.stat("iter.passes");
   try
   {
      auto it = gb();
      auto e = ge();
      if (expect.empty() && (it != e)) { failObs(key + "|begin-not-end", std::string(form) + ": no bit set but begin != end"); return; }
      if (expect.empty() && !(it == e)) { failObs(key + "|begin-not-end", std::string(form) + ": no bit set but !(begin == end)"); return; }
      for (; it != e; ++it)
      {
         got.push_back(*it);
         if (got.size() > limit) { failObs(key + "|no-termination", std::string(form) + ": more steps than bits, got " + showSeq(got)); return; }
      }
   }
   catch (const std::exception& ex)
   {
      failObs(key + "|exception", std::string(form) + " threw " + excName(ex) + fmt(" (expected %zu positions)", expect.size()));
      return;
   }
   out.stat("iter.positions", got.size());
   if (got != expect) failObs(key + "|sequence", std::string(form) + " visited " + showSeq(got) + " expected " + showSeq(expect));
}

/// sel == ALL: every observer and every iteration form (exhaustive modes); otherwise (random histories)
/// sel chooses one forward and one reverse iteration form and whether the second == probe runs
const uint64_t ALL = ~uint64_t(0);

void observe(DynamicBitset& d, const Model& m, bool beyond, uint64_t sel = ALL)
{
   const bool all = sel == ALL;
   const unsigned ff = all ? 99 : (unsigned)(sel % 5), rf = all ? 99 : (unsigned)((sel / 5) % 3);
   const DynamicBitset& c = d;
   const size_t n = m.size();
   prog.set(gIdx, "observe after {" + gDescr + "}");
   out.stat("observations");

   try
   {
      if (c.size() != n) { failObs("size|mismatch", fmt("size()=%zu expected %zu", c.size(), n)); return; }
      for (size_t i = 0; i < n; ++i)
      {
         bool t = c.test(i);
         if (t != (m[i] != 0)) failObs("test(pos)|mismatch", fmt("test(%zu)=%d model ", i, (int)t) + show(m));
         bool x = c[i];
         if (x != (m[i] != 0)) failObs("[]const|mismatch", fmt("[%zu]=%d model ", i, (int)x) + show(m));
      }
      if (beyond)
      {
         const size_t ps[] = { n, n + 1, n + 3, n + 64 };
         for (size_t p : ps)
         {
            // the probed function is the first word of the descriptor: a sanitizer report gets the key of that function
            prog.set(gIdx, fmt("test(pos) pos=%zu size=%zu, observing after {", p, n) + gDescr + "}");
            expectOutOfRange("test(pos)", p, n, [&] { return c.test(p); });
            prog.set(gIdx, fmt("[]const pos=%zu size=%zu, observing after {", p, n) + gDescr + "}");
            expectOutOfRange("[]const", p, n, [&] { return c[p]; });
         }
         prog.set(gIdx, "observe after {" + gDescr + "}");
      }
      size_t cnt = 0;
      for (char b : m) cnt += b ? 1 : 0;
      if (c.count() != cnt) failObs("count|mismatch", fmt("count()=%zu expected %zu ", c.count(), cnt) + show(m));
      if (c.any() != (cnt > 0)) failObs("any|mismatch", fmt("any()=%d ", (int)c.any()) + show(m));
      if (c.none() != (cnt == 0)) failObs("none|mismatch", fmt("none()=%d ", (int)c.none()) + show(m));
      if (c.all() != (cnt == n)) failObs("all|mismatch", fmt("all()=%d ", (int)c.all()) + show(m));
      {
         std::string s = c.to_string();
         if (s != bitsOf(m)) failObs("to_string|mismatch", "to_string()='" + s + "' model " + show(m));
      }
      {
         bool overflow = false;
         unsigned long v = 0;
         for (size_t i = 0; i < n; ++i)
            if (m[i]) { if (i >= ULBITS) overflow = true; else v |= 1UL << i; }
         try
         {
            unsigned long got = c.to_ulong();
            if (overflow) failObs("to_ulong|no-overflow-error", fmt("returned %lu although a bit >= %zu is set ", got, ULBITS) + show(m));
            else if (got != v) failObs("to_ulong|mismatch", fmt("to_ulong()=%lu expected %lu ", got, v) + show(m));
            out.stat(overflow ? "to_ulong.overflow" : "to_ulong.value");
         }
         catch (const std::overflow_error&)
         {
            out.stat("to_ulong.overflow");
            if (!overflow) failObs("to_ulong|unexpected-overflow-error", "value fits but overflow_error thrown " + show(m));
         }
      }
      {
         DynamicBitset same = mk(m);
         if (!(c == same) || !(same == c) || !(c == c)) failObs("operator==|false-for-equal", "compared with an equal bitset of the same size " + show(m));
         if ((n > 0) && (all || ((sel / 15) % 2 == 0)))
         {
            Model o = m;
            size_t p = gHist % n;
            o[p] = !o[p];
            DynamicBitset other = mk(o);
            if ((c == other) || (other == c)) failObs("operator==|true-for-different", fmt("bit %zu differs ", p) + show(m));
         }
         out.stat("eq.same_size", 2);
      }
   }
   catch (const std::exception& e)
   {
      failObs("observe|exception", "unexpected exception " + excName(e) + " model " + show(m));
   }

   // iteration: range-for on a non-const / const bitset and the six begin/end pairs
   const std::vector<size_t> asc = setPositions(m);
   const std::vector<size_t> desc(asc.rbegin(), asc.rend());
   const size_t limit = n + 2;
   if (asc.empty()) out.stat(n == 0 ? "iter.empty_bitset" : "iter.all_zero_bitset");
   if (all || (ff == 0))
   {
      // range-for, exactly as a user writes it
      std::vector<size_t> got;
      bool ok = true;
      try { for (auto p : d) { got.push_back(p); if (got.size() > limit) { ok = false; break; } } }
      catch (const std::exception& ex) { failObs("iterate-forward|exception", "range-for threw " + excName(ex) + " model " + show(m)); ok = true; got = asc; }
      if (!ok) failObs("iterate-forward|no-termination", "range-for got " + showSeq(got));
      else if (got != asc) failObs("iterate-forward|sequence", "range-for visited " + showSeq(got) + " expected " + showSeq(asc));
   }
   if (all || (ff == 1))
   {
      std::vector<size_t> got;
      bool ok = true;
      try { for (auto p : c) { got.push_back(p); if (got.size() > limit) { ok = false; break; } } }
      catch (const std::exception& ex) { failObs("iterate-forward|exception", "range-for (const) threw " + excName(ex) + " model " + show(m)); ok = true; got = asc; }
      if (!ok) failObs("iterate-forward|no-termination", "range-for (const) got " + showSeq(got));
      else if (got != asc) failObs("iterate-forward|sequence", "range-for (const) visited " + showSeq(got) + " expected " + showSeq(asc));
   }
   if (all || (ff == 2)) collect("iterate-forward", "begin()..end()", [&] { return d.begin(); }, [&] { return d.end(); }, asc, limit);
   if (all || (ff == 3)) collect("iterate-forward", "begin()..end() const", [&] { return c.begin(); }, [&] { return c.end(); }, asc, limit);
   if (all || (ff == 4)) collect("iterate-forward", "cbegin()..cend()", [&] { return c.cbegin(); }, [&] { return c.cend(); }, asc, limit);
   if (all || (rf == 0)) collect("iterate-reverse", "rbegin()..rend()", [&] { return d.rbegin(); }, [&] { return d.rend(); }, desc, limit);
   if (all || (rf == 1)) collect("iterate-reverse", "rbegin()..rend() const", [&] { return c.rbegin(); }, [&] { return c.rend(); }, desc, limit);
   if (all || (rf == 2)) collect("iterate-reverse", "crbegin()..crend()", [&] { return c.crbegin(); }, [&] { return c.crend(); }, desc, limit);
}

// ------------------------------------------------------------------ iterator walks with ++ / --

/// seq = expected positions in the order of this iterator kind. moves: 0 ++it, 1 it++, 2 --it, 3 it--
template <typename It, typename GB, typename GE>
void walk(const std::string& key, const char* form, GB gb, GE ge, const std::vector<size_t>& seq, bool startAtEnd,
          const std::vector<int>& moves)
{
   out.stat("walk.walks");
   try
   {
      It e = ge();
      It it = startAtEnd ? ge() : gb();
      size_t k = startAtEnd ? seq.size() : 0;
      auto at = [&](const It& x, size_t kk, const std::string& kind, const std::string& what) -> bool
      {
         const bool isEnd = (x == e);
         if (isEnd != !(x != e)) { failObs(key + "|==-and-!=-disagree", std::string(form) + " " + what); return false; }
         if (kk == seq.size())
         {
            if (!isEnd) { failObs(key + "|" + kind, std::string(form) + " " + what + fmt(": expected end, is at %zu, set bits ", *x) + showSeq(seq)); return false; }
         }
         else if (isEnd || (*x != seq[kk]))
         {
            failObs(key + "|" + kind, std::string(form) + " " + what + ": expected position " + std::to_string(seq[kk]) +
                    (isEnd ? std::string(" is at end") : fmt(" is at %zu", *x)) + ", set bits in iteration order " + showSeq(seq));
            return false;
         }
         return true;
      };
      if (!at(it, k, "start-position", startAtEnd ? "end" : "begin")) return;
      std::string path = startAtEnd ? "end" : "begin";
      for (int mv : moves)
      {
         const bool inc = mv < 2, post = (mv & 1) != 0;
         path += inc ? (post ? " it++" : " ++it") : (post ? " it--" : " --it");
         if (inc && (k == seq.size()))
         {
            // not documented: incrementing an end iterator. executed (memory safety), result not judged
            out.stat("abst.inc_at_end");
            try { if (post) it++; else ++it; } catch (const std::exception&) { out.stat("abst.inc_at_end_threw"); }
            return;
         }
         if (!inc && (k == 0))
         {
            // not documented: decrementing when there is no previous element
            out.stat("abst.dec_without_previous");
            try { if (post) it--; else --it; } catch (const std::exception&) { out.stat("abst.dec_without_previous_threw"); }
            return;
         }
         const std::string kind = inc ? "++position" : ((k == seq.size()) ? "--from-end-position" : "--position");
         const size_t nk = inc ? k + 1 : k - 1;
         if (post)
         {
            It old = inc ? it++ : it--;
            if (!at(old, k, "post-op-return", path + " (returned copy)")) return;
         }
         else
         {
            It& r = inc ? ++it : --it;
            if (&r != &it) { failObs(key + "|pre-op-return", path + " does not return *this"); return; }
         }
         k = nk;
         out.stat(inc ? "walk.inc" : "walk.dec");
         if (!at(it, k, kind, path)) return;
      }
   }
   catch (const std::exception& ex)
   {
      failObs(key + "|exception", std::string(form) + " walk threw " + excName(ex) + ", set bits " + showSeq(seq));
   }
}

void walkKind(DynamicBitset& d, const Model& m, int kind, bool startAtEnd, const std::vector<int>& moves)
{
   const DynamicBitset& c = d;
   const std::vector<size_t> asc = setPositions(m);
   const std::vector<size_t> desc(asc.rbegin(), asc.rend());
   switch (kind)
   {
   case 0: walk<DynamicBitset::iterator>("iterate-forward", "iterator", [&] { return d.begin(); }, [&] { return d.end(); }, asc, startAtEnd, moves); break;
   case 1: walk<DynamicBitset::const_iterator>("iterate-forward", "const_iterator", [&] { return c.cbegin(); }, [&] { return c.cend(); }, asc, startAtEnd, moves); break;
   case 2: walk<DynamicBitset::reverse_iterator>("iterate-reverse", "reverse_iterator", [&] { return d.rbegin(); }, [&] { return d.rend(); }, desc, startAtEnd, moves); break;
   default: walk<DynamicBitset::const_reverse_iterator>("iterate-reverse", "const_reverse_iterator", [&] { return c.crbegin(); }, [&] { return c.crend(); }, desc, startAtEnd, moves); break;
   }
}

std::string movesStr(const std::vector<int>& mv)
{
   std::string s;
   for (int x : mv) s += "0123"[x & 3];
   return s;
}

void opWalk(DynamicBitset& d, Model& m, int kind, bool startAtEnd, const std::vector<int>& moves)
{
   beginOp("iterwalk", fmt("kind=%d start=%s moves=%s state=", kind, startAtEnd ? "end" : "begin", movesStr(moves).c_str()) + show(m));
   walkKind(d, m, kind, startAtEnd, moves);
   expectState(d, m);
}

// ------------------------------------------------------------------ operations

/// growth of a documented growing operation: adopt the new size, require new size > pos
void adoptGrowth(const DynamicBitset& d, Model& m, size_t pos)
{
   if (pos < m.size()) return;   // no growth documented: expectState() insists on the old size
   const size_t ns = d.size();
   out.stat("grow." + gOp);
   if (ns <= pos)
      fail("growth", fmt("pos=%zu old size=%zu new size=%zu: must grow to more than pos", pos, m.size(), ns));
   if (ns >= m.size()) m.resize(ns, 0);
}

void opSetPos(DynamicBitset& d, Model& m, size_t pos, bool val, bool defaultArg)
{
   if (defaultArg) val = true;
   beginOp("set(pos)", fmt("pos=%zu val=%d%s state=", pos, (int)val, defaultArg ? " (default)" : "") + show(m));
   guarded([&] {
      DynamicBitset& r = defaultArg ? d.set(pos) : d.set(pos, val);
      if (&r != &d) fail("return", "does not return this object");
   });
   adoptGrowth(d, m, pos);
   if (pos < m.size()) m[pos] = val;
   expectState(d, m);
}

/// positions that no bitset can hold (at or beyond max_size(), up to SIZE_MAX): refused with std::length_error
/// (std::bad_alloc tolerated), the bitset stays as it is - the growth arithmetic (1.5 x position) must not wrap
void opHugePos(DynamicBitset& d, Model& m, size_t pos, int which)
{
   static const char* const names[4] = { "set(pos)", "reset(pos)", "flip(pos)", "operator[] (write)" };
   beginOp(std::string(names[which]) + " huge", fmt("pos=%zu state=", pos) + show(m));
   bool threw = false;
   try
   {
      switch (which)
      {
      case 0: d.set(pos); break;
      case 1: d.reset(pos); break;
      case 2: d.flip(pos); break;
      default: d[pos] = true; break;
      }
   }
   catch (const std::length_error&) { threw = true; }
   catch (const std::bad_alloc&) { threw = true; }
   out.stat("ops.huge_position");
   if (!threw) fail("huge-position", "no exception for a position that no bitset can hold");
   expectState(d, m);
}

void opResetPos(DynamicBitset& d, Model& m, size_t pos)
{
   beginOp("reset(pos)", fmt("pos=%zu state=", pos) + show(m));
   guarded([&] {
      DynamicBitset& r = d.reset(pos);
      if (&r != &d) fail("return", "does not return this object");
   });
   adoptGrowth(d, m, pos);
   if (pos < m.size()) m[pos] = 0;
   expectState(d, m);
}

void opFlipPos(DynamicBitset& d, Model& m, size_t pos)
{
   beginOp("flip(pos)", fmt("pos=%zu state=", pos) + show(m));
   guarded([&] {
      DynamicBitset& r = d.flip(pos);
      if (&r != &d) fail("return", "does not return this object");
   });
   adoptGrowth(d, m, pos);
   if (pos < m.size()) m[pos] = !m[pos];
   expectState(d, m);
}

void opIndexRead(DynamicBitset& d, Model& m, size_t pos)
{
   beginOp("[]read", fmt("pos=%zu state=", pos) + show(m));
   bool v = false;
   guarded([&] { v = d[pos]; });
   adoptGrowth(d, m, pos);
   if ((pos < m.size()) && (v != (m[pos] != 0))) fail("value", fmt("d[%zu] is %d expected %d", pos, (int)v, (int)m[pos]));
   expectState(d, m);
}

void opIndexWrite(DynamicBitset& d, Model& m, size_t pos, bool val)
{
   beginOp("[]=", fmt("pos=%zu val=%d state=", pos, (int)val) + show(m));
   guarded([&] { d[pos] = val; });
   adoptGrowth(d, m, pos);
   if (pos < m.size()) m[pos] = val;
   expectState(d, m);
}

/// read-only access: value inside, std::out_of_range at or beyond the size
void opConstAccess(DynamicBitset& d, Model& m, size_t pos, bool useTest)
{
   const DynamicBitset& c = d;
   beginOp(useTest ? "test(pos)" : "[]const", fmt("pos=%zu state=", pos) + show(m));
   try
   {
      bool v = useTest ? c.test(pos) : c[pos];
      if (pos >= m.size()) fail("no-exception", fmt("pos=%zu size=%zu returned %d, documented: std::out_of_range", pos, m.size(), (int)v));
      else if (v != (m[pos] != 0)) fail("value", fmt("returned %d expected %d", (int)v, (int)m[pos]));
      else out.stat("const_access.inside");
   }
   catch (const std::out_of_range&)
   {
      if (pos < m.size()) fail("exception", "std::out_of_range for a position inside the bitset");
      else out.stat("exc.expected_out_of_range");
   }
   catch (const std::exception& e) { fail("wrong-exception", excName(e)); }
   expectState(d, m);
}

void opSetAll(DynamicBitset& d, Model& m)
{
   beginOp("set()", "state=" + show(m));
   DynamicBitset& r = d.set();
   if (&r != &d) fail("return", "does not return this object");
   m.assign(m.size(), 1);
   expectState(d, m);
}

void opResetAll(DynamicBitset& d, Model& m)
{
   beginOp("reset()", "state=" + show(m));
   DynamicBitset& r = d.reset();
   if (&r != &d) fail("return", "does not return this object");
   // documented: "Resets/Clears all bits" - whether the size is kept is not said: adopt it
   const size_t ns = d.size();
   if (ns != m.size()) out.stat("abst.reset_all_size_adopted");
   m.assign(ns, 0);
   expectState(d, m);
}

void opFlipAll(DynamicBitset& d, Model& m)
{
   beginOp("flip()", "state=" + show(m));
   DynamicBitset& r = d.flip();
   if (&r != &d) fail("return", "does not return this object");
   for (auto& b : m) b = !b;
   expectState(d, m);
}

/// ~d; how: 0 = only check the result, 1 = copy-assign it to d, 2 = move-assign it to d
void opInvert(DynamicBitset& d, Model& m, int how)
{
   beginOp("~", fmt("how=%d state=", how) + show(m));
   const DynamicBitset& c = d;
   DynamicBitset r = ~c;
   Model inv = m;
   for (auto& b : inv) b = !b;
   Model e = inv;
   expectState(r, e);
   expectState(d, m, "operand-modified");
   if (how == 1) { d = r; m = inv; expectState(d, m, "copy-assign"); Model e2 = inv; expectState(r, e2, "copy-assign-source-modified"); }
   else if (how == 2) { d = std::move(r); m = inv; expectState(d, m, "move-assign"); }
}

void opResize(DynamicBitset& d, Model& m, size_t count, bool init, bool defaultArg)
{
   if (defaultArg) init = false;
   beginOp("resize", fmt("count=%zu init=%d%s state=", count, (int)init, defaultArg ? " (default)" : "") + show(m));
   guarded([&] { if (defaultArg) d.resize(count); else d.resize(count, init); });
   m.resize(count, init ? 1 : 0);
   expectState(d, m);
}

template <size_t N> std::bitset<N> toBitset(const Model& m)
{
   std::bitset<N> b;
   for (size_t i = 0; i < N; ++i) b[i] = m[i] != 0;
   return b;
}

template <size_t N> void fromBitsetN(DynamicBitset& d, Model& m, const Model& src, bool assign)
{
   std::bitset<N> b = toBitset<N>(src);
   if (assign)
   {
      DynamicBitset& r = (d = b);
      if (&r != &d) fail("return", "does not return this object");
   }
   else
   {
      DynamicBitset t(b);
      d = std::move(t);
   }
   m = src;
   expectState(d, m);
}

#define BITSET_SIZES X(0) X(1) X(2) X(3) X(4) X(5) X(6) X(7) X(8) X(31) X(32) X(33) X(63) X(64) X(65) X(100) X(127) X(128) X(129) X(200) X(300)
const size_t bitsetSizes[] = {
#define X(n) n,
   BITSET_SIZES
#undef X
};

void opFromBitset(DynamicBitset& d, Model& m, const Model& src, bool assign)
{
   beginOp(assign ? "=(bitset)" : "ctor(bitset)", "src=" + show(src) + " state=" + show(m));
   guarded([&] {
      switch (src.size())
      {
#define X(n) case n: fromBitsetN<n>(d, m, src, assign); break;
         BITSET_SIZES
#undef X
      default: fprintf(stderr, "bitset size %zu not instantiated\n", src.size()); exit(3);
      }
   });
}

/// how: 0 ctor(size), 1 ctor(const vector&), 2 ctor(vector&&), 3 =(const vector&), 4 =(vector&&),
///      5 copy ctor + copy assignment, 6 move ctor + move assignment
void opConstruct(DynamicBitset& d, Model& m, const Model& src, int how)
{
   static const char* names[] = { "ctor(size)", "ctor(vector)", "ctor(vector&&)", "=(vector)", "=(vector&&)", "copy", "move" };
   beginOp(names[how], "src=" + show(src) + " state=" + show(m));
   guarded([&] {
      switch (how)
      {
      case 0: { DynamicBitset t(src.size()); d = std::move(t); m.assign(src.size(), 0); break; }
      case 1: { const std::vector<bool> v = toVB(src); DynamicBitset t(v); d = std::move(t); m = src; break; }
      case 2: { std::vector<bool> v = toVB(src); DynamicBitset t(std::move(v)); d = std::move(t); m = src; break; }
      case 3: { const std::vector<bool> v = toVB(src); DynamicBitset& r = (d = v); if (&r != &d) fail("return", "does not return this object"); m = src; break; }
      case 4: { std::vector<bool> v = toVB(src); DynamicBitset& r = (d = std::move(v)); if (&r != &d) fail("return", "does not return this object"); m = src; break; }
      case 5:
      {
         DynamicBitset s = mk(src);
         DynamicBitset t(s);          // copy constructor
         Model e = src;
         expectState(t, e, "copy-ctor");
         d = s;                        // copy assignment
         e = src;
         expectState(s, e, "source-modified");
         m = src;
         break;
      }
      default:
      {
         DynamicBitset s = mk(src);
         DynamicBitset t(std::move(s));   // move constructor
         Model e = src;
         expectState(t, e, "move-ctor");
         d = std::move(t);                 // move assignment
         m = src;
         break;
      }
      }
   });
   expectState(d, m);
}

/// which: 0 &, 1 |, 2 ^.  executes r = d op b and d op= b (alias: b is d itself)
void opBinary(DynamicBitset& d, Model& m, const Model& bm, int which, bool alias)
{
   static const char* cn[] = { "&=", "|=", "^=" };
   static const char* bn[] = { "&", "|", "^" };
   beginOp(cn[which], (alias ? std::string("other=self") : "other=" + show(bm)) + " state=" + show(m));
   const Model om = alias ? m : bm;   // copy: the right operand as it was before the operation
   const Model before = m;
   const bool sameSize = om.size() == m.size();
   DynamicBitset bCopy = mk(bm);
   const DynamicBitset& b = alias ? d : bCopy;
   Model binState, cmpState;
   bool ok = guarded([&] {
      DynamicBitset r = (which == 0) ? (d & b) : (which == 1) ? (d | b) : (d ^ b);
      binState = readState(r);
      {
         Model e = before;
         expectState(d, e, "operand-modified-by-binary-form");
      }
      DynamicBitset& ret = (which == 0) ? (d &= b) : (which == 1) ? (d |= b) : (d ^= b);
      if (&ret != &d) fail("return", "does not return this object");
      cmpState = readState(d);
      if (binState != cmpState)
         fail("differs-from-binary", std::string("a ") + cn[which] + " b gives " + show(cmpState) + " but a " + bn[which] + " b gives " + show(binState));
      else if (!(r == d))
         fail("differs-from-binary", "same bits but operator== between the two results is false");
      out.stat("meta.compound_vs_binary");
   });
   if (!alias)
   {
      Model e = bm;
      expectState(bCopy, e, "right-operand-modified");
   }
   if (!ok) { m = readState(d); return; }
   if (!sameSize)
   {
      // different sizes: "each flag of this object with that of the other object" - a flag that an operand does not have is
      // not set (zero extension).  The SIZE of the result is adopted from the implementation (not documented), the FLAGS are
      // judged: every position of the result must hold the zero-extended operation, and no set flag of it may be cut off.
      out.stat("abst.binop_different_size_result_size_adopted");
      const size_t ns = cmpState.size();
      const size_t mx = std::max(before.size(), om.size());
      auto bit = [](const Model& x, size_t i) { return i < x.size() && x[i] != 0; };
      auto opbit = [&](size_t i) { return (which == 0) ? (bit(before, i) && bit(om, i)) : (which == 1) ? (bit(before, i) || bit(om, i)) : (bit(before, i) != bit(om, i)); };
      Model e(ns, 0);
      for (size_t i = 0; i < ns; ++i) e[i] = opbit(i) ? 1 : 0;
      bool cut = false;
      for (size_t i = ns; i < mx; ++i) if (opbit(i)) cut = true;
      if (cut) { gOp = bn[which]; fail("result-different-sizes", "a set flag of the result lies behind the size of the result: " + show(before) + " " + bn[which] + " " + show(om) + " gives " + show(cmpState)); gOp = cn[which]; }
      else if (cmpState != e) { gOp = bn[which]; fail("result-different-sizes", show(before) + " " + bn[which] + " " + show(om) + ": expected " + show(e) + " got " + show(cmpState)); gOp = cn[which]; }
      else out.stat("binop_different_size_flags_as_model");
      m = cmpState;
      return;
   }
   Model e(before.size());
   for (size_t i = 0; i < e.size(); ++i)
      e[i] = (which == 0) ? (before[i] & om[i] ? 1 : 0) : (which == 1) ? ((before[i] | om[i]) ? 1 : 0) : ((before[i] != 0) != (om[i] != 0) ? 1 : 0);
   m = e;
   if (binState != e)
   {
      gOp = bn[which];
      fail("result", "expected " + show(e) + " got " + show(binState));
      gOp = cn[which];
   }
   expectState(d, m);
}

/// expected content after a shift when the implementation reports the new size ns
Model shifted(const Model& before, size_t sh, bool left, size_t ns)
{
   Model e(ns, 0);
   for (size_t j = 0; j < ns; ++j)
   {
      if (left) { if ((j >= sh) && (j - sh < before.size())) e[j] = before[j - sh]; }
      else if ((sh < before.size()) && (j < before.size() - sh)) e[j] = before[j + sh];
   }
   return e;
}

void opShift(DynamicBitset& d, Model& m, size_t sh, bool left)
{
   const char* cn = left ? "<<=" : ">>=";
   const char* bn = left ? "<<" : ">>";
   beginOp(cn, fmt("dist=%zu state=", sh) + show(m));
   const Model before = m;
   Model binState, cmpState;
   bool ok = guarded([&] {
      const DynamicBitset& c = d;
      DynamicBitset r = left ? (c << sh) : (c >> sh);
      binState = readState(r);
      {
         Model e = before;
         expectState(d, e, "operand-modified-by-binary-form");
      }
      DynamicBitset& ret = left ? (d <<= sh) : (d >>= sh);
      if (&ret != &d) fail("return", "does not return this object");
      cmpState = readState(d);
      if (binState != cmpState)
         fail("differs-from-binary", std::string("a ") + cn + " n gives " + show(cmpState) + " but a " + bn + " n gives " + show(binState));
      else if (!(r == d))
         fail("differs-from-binary", "same bits but operator== between the two results is false");
      out.stat("meta.compound_vs_binary");
   });
   if (!ok) { m = readState(d); return; }
   // size after a shift is not documented: adopted, but no reading of "shift" makes it smaller
   auto judge = [&](const Model& got, const char* name) {
      if (got.size() < before.size())
      {
         gOp = name;
         fail("size", fmt("size shrank from %zu to %zu", before.size(), got.size()));
         gOp = cn;
         return;
      }
      if (got.size() != before.size()) out.stat("abst.shift_size_adopted");
      Model e = shifted(before, sh, left, got.size());
      if (e != got)
      {
         gOp = name;
         fail("result", "expected " + show(e) + " got " + show(got));
         gOp = cn;
      }
   };
   judge(binState, bn);
   judge(cmpState, cn);
   m = cmpState;
}

void opToStringChars(DynamicBitset& d, Model& m, char zero, char one)
{
   beginOp("to_string(chars)", fmt("zero=%c one=%c state=", zero, one) + show(m));
   const DynamicBitset& c = d;
   guarded([&] {
      std::string s = c.to_string(zero, one);
      if (s != bitsOf(m, zero, one)) fail("mismatch", "got '" + s + "'");
      std::string t = c.to_string<char>(zero);
      if (t != bitsOf(m, zero, '1')) fail("mismatch", "default one-character: got '" + t + "'");
   });
   expectState(d, m);
}

/// == between different sizes is contradictory in the documentation: executed, not judged
void opEqualDifferentSize(DynamicBitset& d, Model& m, const Model& other)
{
   beginOp("==(different-size)", "other=" + show(other) + " state=" + show(m));
   DynamicBitset o = mk(other);
   bool r = (d == o);
   (void)r;
   out.stat("abst.eq_different_size");
   expectState(d, m);
}

// ------------------------------------------------------------------ enumeration helpers

/// state index 0..510 -> (size 0..8, bits)
Model stateOf(unsigned idx)
{
   unsigned n = 0;
   while (idx >= (1u << n)) { idx -= (1u << n); ++n; }
   Model m(n, 0);
   for (unsigned i = 0; i < n; ++i) m[i] = (idx >> i) & 1;
   return m;
}
const unsigned NSTATES = 511;

std::vector<size_t> positionsFor(size_t n)
{
   std::vector<size_t> p;
   for (size_t i = 0; i <= n + 3; ++i) p.push_back(i);
   for (size_t x : { size_t(63), size_t(64), size_t(65), size_t(100) }) p.push_back(x);
   return p;
}

const unsigned NKINDS = 21;

/// one exhaustive case: every parameter of one operation kind applied to a fresh copy of one state
void exhUnary(unsigned stateIdx, unsigned kind)
{
   const Model s = stateOf(stateIdx);
   const std::vector<size_t> P = positionsFor(s.size());
   uint64_t steps = 0;
   // every step is run on clean storage and on storage with ones behind size()
   auto fresh = [&](Model& m, bool dirty) { m = s; gDirty = dirty; DynamicBitset d = mk(s); gDirty = false; return d; };
   auto each = [&](const std::function<void(DynamicBitset&, Model&, size_t)>& f) {
      for (size_t p : P)
         for (int dirty = 0; dirty < 2; ++dirty)
         {
            Model m;
            DynamicBitset d = fresh(m, dirty != 0);
            gDirty = dirty != 0;
            f(d, m, p);
            gDirty = false;
            observe(d, m, true);
            ++steps;
         }
   };
   auto once = [&](const std::function<void(DynamicBitset&, Model&)>& f) {
      for (int dirty = 0; dirty < 2; ++dirty)
      {
         Model m;
         DynamicBitset d = fresh(m, dirty != 0);
         gDirty = dirty != 0;
         f(d, m);
         gDirty = false;
         observe(d, m, true);
         ++steps;
      }
   };
   switch (kind)
   {
   case 0: once([&](DynamicBitset& d, Model& m) { beginOp("ctor(vector)", "src=" + show(s)); expectState(d, m); }); break;
   case 1: once([&](DynamicBitset& d, Model& m) { opSetAll(d, m); }); break;
   case 2: once([&](DynamicBitset& d, Model& m) { opResetAll(d, m); }); break;
   case 3: once([&](DynamicBitset& d, Model& m) { opFlipAll(d, m); }); break;
   case 4: for (int how = 0; how < 3; ++how) once([&](DynamicBitset& d, Model& m) { opInvert(d, m, how); }); break;
   case 5: each([&](DynamicBitset& d, Model& m, size_t p) { opSetPos(d, m, p, true, false); });
           each([&](DynamicBitset& d, Model& m, size_t p) { opSetPos(d, m, p, true, true); }); break;
   case 6: each([&](DynamicBitset& d, Model& m, size_t p) { opSetPos(d, m, p, false, false); }); break;
   case 7: each([&](DynamicBitset& d, Model& m, size_t p) { opResetPos(d, m, p); }); break;
   case 8: each([&](DynamicBitset& d, Model& m, size_t p) { opFlipPos(d, m, p); }); break;
   case 9: each([&](DynamicBitset& d, Model& m, size_t p) { opIndexRead(d, m, p); }); break;
   case 10: each([&](DynamicBitset& d, Model& m, size_t p) { opIndexWrite(d, m, p, true); }); break;
   case 11: each([&](DynamicBitset& d, Model& m, size_t p) { opIndexWrite(d, m, p, false); }); break;
   case 12: each([&](DynamicBitset& d, Model& m, size_t p) { opConstAccess(d, m, p, true); }); break;
   case 13: each([&](DynamicBitset& d, Model& m, size_t p) { opConstAccess(d, m, p, false); }); break;
   case 14: each([&](DynamicBitset& d, Model& m, size_t p) { opShift(d, m, p, true); }); break;
   case 15: each([&](DynamicBitset& d, Model& m, size_t p) { opShift(d, m, p, false); }); break;
   case 16: each([&](DynamicBitset& d, Model& m, size_t p) { opResize(d, m, p, false, false); });
            each([&](DynamicBitset& d, Model& m, size_t p) { opResize(d, m, p, false, true); }); break;
   case 17: each([&](DynamicBitset& d, Model& m, size_t p) { opResize(d, m, p, true, false); }); break;
   case 18:
      // every construction / assignment form producing this state, starting from two different old contents
      for (int how = 0; how < 7; ++how)
         for (int old = 0; old < 2; ++old)
         {
            Model m = old ? Model(11, 1) : Model();
            DynamicBitset d = mk(m);
            opConstruct(d, m, s, how);
            observe(d, m, true);
            ++steps;
         }
      for (int assign = 0; assign < 2; ++assign)
         for (int old = 0; old < 2; ++old)
         {
            Model m = old ? Model(11, 1) : Model();
            DynamicBitset d = mk(m);
            opFromBitset(d, m, s, assign != 0);
            observe(d, m, true);
            ++steps;
         }
      break;
   case 19:
   {
      // every ++/-- script of length 4 (pre and post forms) from begin and from end, all four iterator kinds,
      // plus the complete walk there and back
      Model m;
      DynamicBitset d = fresh(m, (stateIdx & 1) != 0);
      const size_t cnt = setPositions(s).size();
      for (int k = 0; k < 4; ++k)
         for (int startEnd = 0; startEnd < 2; ++startEnd)
         {
            for (int code = 0; code < 256; ++code)
            {
               std::vector<int> mv = { code & 3, (code >> 2) & 3, (code >> 4) & 3, (code >> 6) & 3 };
               opWalk(d, m, k, startEnd != 0, mv);
               ++steps;
            }
            for (int post = 0; post < 2; ++post)
            {
               std::vector<int> mv;
               if (startEnd) { mv.assign(cnt, 2 + post); mv.insert(mv.end(), cnt, post); mv.push_back(post); }
               else { mv.assign(cnt, post); mv.insert(mv.end(), cnt, 2 + post); mv.push_back(2 + post); }
               opWalk(d, m, k, startEnd != 0, mv);
               ++steps;
            }
         }
      observe(d, m, false);
      break;
   }
   default:
      once([&](DynamicBitset& d, Model& m) { opToStringChars(d, m, '.', 'X'); });
      once([&](DynamicBitset& d, Model& m) { opToStringChars(d, m, '1', '0'); });
      for (size_t o = 0; o <= 9; ++o)
         if (o != s.size()) once([&](DynamicBitset& d, Model& m) { opEqualDifferentSize(d, m, Model(o, 0)); });
      break;
   }
   out.stat("distinct_exact", steps);
}

/// one exhaustive case: state a against every state b, three operators, both forms
void exhBinary(unsigned ai)
{
   const Model a = stateOf(ai);
   uint64_t steps = 0;
   for (unsigned bi = 0; bi < NSTATES; ++bi)
   {
      const Model b = stateOf(bi);
      for (int which = 0; which < 3; ++which)
      {
         Model m = a;
         gDirty = ((bi + which) & 1) != 0;
         DynamicBitset d = mk(a);
         opBinary(d, m, b, which, false);
         gDirty = false;
         // complete observation for equal sizes on a sample, light otherwise (every state is observed completely in exh1)
         if ((a.size() == b.size()) && ((bi + which) % 7 == 0)) observe(d, m, false);
         ++steps;
         out.stat(a.size() == b.size() ? "pairs.same_size" : "pairs.different_size");
      }
   }
   for (int which = 0; which < 3; ++which)
   {
      Model m = a;
      DynamicBitset d = mk(a);
      opBinary(d, m, a, which, true);
      observe(d, m, false);
      ++steps;
   }
   out.stat("distinct_exact", steps);
}

// ------------------------------------------------------------------ random histories

Model randomModel(vh::Rng& r, size_t n)
{
   Model m(n, 0);
   const unsigned dens[] = { 0, 1, 4, 7, 8, 4, 4 };   // eighths
   unsigned dn = dens[r.below(7)];
   for (auto& b : m) b = r.below(8) < dn;
   if (n && r.chance(1, 4)) m[n - 1] = 1;
   if (n && r.chance(1, 8)) m[0] = 1;
   return m;
}

size_t pickSize(vh::Rng& r, size_t maxN)
{
   const size_t special[] = { 0, 1, 2, 7, 8, 9, 31, 32, 33, 63, 64, 65, 100, 127, 128, 129, 191, 192, 193, 255, 256, 257, 300 };
   if (r.chance(1, 2))
   {
      size_t s = special[r.below(sizeof special / sizeof special[0])];
      if (s <= maxN) return s;
   }
   return r.below(maxN + 1);
}

size_t pickPos(vh::Rng& r, size_t size, bool mayGrow)
{
   size_t p;
   switch (r.below(12))
   {
   case 0: p = size; break;
   case 1: p = size + 1; break;
   case 2: p = size + 2 + r.below(2); break;
   case 3: p = size ? size - 1 : 0; break;
   case 4: { const size_t x[] = { 63, 64, 65, 100, 0, 127, 128 }; p = x[r.below(7)]; break; }
   case 5: p = size + r.below(40); break;
   default: p = size ? r.below(size) : r.below(4); break;
   }
   if (!mayGrow && (p >= size)) p = size ? p % size : 0;
   return p;
}

size_t pickShift(vh::Rng& r, size_t size)
{
   switch (r.below(10))
   {
   case 0: return 0;
   case 1: return 1;
   case 2: return size;
   case 3: return size + 1 + r.below(3);
   case 4: return size ? size - 1 : 0;
   case 5: { const size_t x[] = { 63, 64, 65, 100 }; return x[r.below(4)]; }
   case 6: return size + r.below(70);
   default: return size ? r.below(size) : r.below(5);
   }
}

void history(uint64_t idx, uint64_t seed, const std::string& mode, unsigned nops, size_t cap)
{
   vh::Rng r(vh::mix(seed, vh::mix(vh::hash_str(mode), idx)));
   const size_t caps[] = { 8, 20, 70, 130, cap, cap };
   size_t maxN = caps[r.below(6)];
   if (maxN > cap) maxN = cap;
   Model m;
   DynamicBitset d(0);
   {
      Model src = randomModel(r, pickSize(r, maxN));
      opConstruct(d, m, src, (int)r.below(7));
      observe(d, m, true);
   }
   for (unsigned step = 0; step < nops; ++step)
   {
      const size_t n = m.size();
      const bool mayGrow = n <= cap;          // keeps sizes bounded: growth factor 1.5 on at most cap+40
      unsigned pick = (unsigned)r.below(100);
      if ((n > cap) && r.chance(1, 2))   // shrink again
      {
         opResize(d, m, pickSize(r, maxN), r.chance(1, 2), r.chance(1, 4));
         observe(d, m, false, r.below(30));
         continue;
      }
      if (pick < 10) opSetPos(d, m, pickPos(r, n, mayGrow), r.chance(3, 4), r.chance(1, 4));
      else if (pick < 16) opResetPos(d, m, pickPos(r, n, mayGrow));
      else if (pick < 24) opFlipPos(d, m, pickPos(r, n, mayGrow));
      else if (pick < 28) opIndexRead(d, m, pickPos(r, n, mayGrow));
      else if (pick < 36) opIndexWrite(d, m, pickPos(r, n, mayGrow), r.chance(3, 4));
      else if (pick < 37 && r.chance(1, 3))
      {
         static const size_t HUGE_POS[] = { SIZE_MAX, SIZE_MAX - 1, 0xAAAAAAAAAAAAAAAAull, 0xC000000000000000ull, SIZE_MAX / 2 + 1, SIZE_MAX / 3 * 2 + 1, 0xAAAAAAAAAAAAAAA0ull };
         opHugePos(d, m, HUGE_POS[r.below(sizeof HUGE_POS / sizeof HUGE_POS[0])], (int)r.below(3));      // not operator[]: declared noexcept, a position it cannot reach ends in std::terminate
      }
      else if (pick < 40) opConstAccess(d, m, pickPos(r, n, true), true);
      else if (pick < 44) opConstAccess(d, m, pickPos(r, n, true), false);
      else if (pick < 46) opSetAll(d, m);
      else if (pick < 47) opResetAll(d, m);
      else if (pick < 51) opFlipAll(d, m);
      else if (pick < 55) opInvert(d, m, (int)r.below(3));
      else if (pick < 60)
      {
         Model src = randomModel(r, pickSize(r, maxN));
         gDirty = r.chance(1, 2);
         opConstruct(d, m, src, (int)r.below(7));
         gDirty = false;
      }
      else if (pick < 65)
      {
         size_t c = r.chance(1, 2) ? pickSize(r, maxN) : (r.chance(1, 2) ? n + r.below(5) : (n ? n - r.below(n < 5 ? n : 5) : 0));
         if (c > cap + 40) c = cap;
         opResize(d, m, c, r.chance(1, 2), r.chance(1, 4));
      }
      else if (pick < 67)
      {
         size_t bs = bitsetSizes[r.below(sizeof bitsetSizes / sizeof bitsetSizes[0])];
         if (bs > cap) bs = 8;
         opFromBitset(d, m, randomModel(r, bs), r.chance(1, 2));
      }
      else if (pick < 79)
      {
         bool alias = r.chance(1, 12);
         size_t bsz = r.chance(3, 4) ? n : pickSize(r, maxN);
         gDirty = r.chance(1, 2);
         opBinary(d, m, alias ? m : randomModel(r, bsz), (int)r.below(3), alias);
         gDirty = false;
      }
      else if (pick < 91)
      {
         bool left = r.chance(1, 2);
         size_t sh = pickShift(r, n);
         if (left && (n + sh > 2 * cap)) sh %= 8;
         opShift(d, m, sh, left);
      }
      else if (pick < 97)
      {
         std::vector<int> mv(1 + r.below(12));
         const bool startAtEnd = r.chance(1, 2);
         // biased towards moving away from the start, so that walks reach the middle of the bitset
         const bool biased = r.chance(3, 4);
         for (auto& x : mv)
         {
            bool inc = biased ? (r.chance(3, 4) != startAtEnd) : r.chance(1, 2);
            x = (inc ? 0 : 2) + (int)r.below(2);
         }
         opWalk(d, m, (int)r.below(4), startAtEnd, mv);
      }
      else if (pick < 99) opToStringChars(d, m, "0.-_"[r.below(4)], "1X#*"[r.below(4)]);
      else opEqualDifferentSize(d, m, randomModel(r, n + 1 + r.below(3)));
      {
         const bool beyond = r.chance(1, 4);
         observe(d, m, beyond, r.chance(1, 8) ? ALL : r.below(30));
      }
   }
}

}   // namespace

int main(int argc, char** argv)
{
   vh::Args a = vh::parse_args(argc, argv);
   prog.open(a.progress);
   verbose = a.getu("verbose", 0) != 0;
   const uint64_t end = a.start + a.count;

   // spot check of the model helpers
   {
      Model m = { 1, 0, 1, 1, 0 };
      if (bitsOf(m) != "01101" || show(stateOf(0)) != "[n=0 ]" || stateOf(510).size() != 8 || stateOf(1).size() != 1 ||
          stateOf(2) != Model({ 1 }) || shifted(m, 1, true, 6) != Model({ 0, 1, 0, 1, 1, 0 }) ||
          shifted(m, 2, false, 5) != Model({ 1, 1, 0, 0, 0 }) || shifted(m, 9, false, 5) != Model(5, 0))
      {
         fprintf(stderr, "model helpers broken\n");
         return 3;
      }
   }

   if (a.mode == "exh1")
   {
      // case = (state, operation kind), state-major so that every worker sees every kind
      for (uint64_t i = a.start; i < end; ++i)
      {
         out.curIdx = gIdx = i;
         gHist = i;
         unsigned st = (unsigned)(i / NKINDS), kind = (unsigned)(i % NKINDS);
         if (st >= NSTATES) break;
         prog.set(i, fmt("exh1 state=%u kind=%u", st, kind));
         exhUnary(st, kind);
         out.stat("cases");
         if ((i % 2477) == 13) out.sample(gDescr);
      }
   }
   else if (a.mode == "exh2")
   {
      for (uint64_t i = a.start; i < end; ++i)
      {
         out.curIdx = gIdx = i;
         gHist = i;
         if (i >= NSTATES) break;
         prog.set(i, fmt("exh2 state=%" PRIu64, i));
         exhBinary((unsigned)i);
         out.stat("cases");
         if ((i % 101) == 7) out.sample(gDescr);
      }
   }
   else if (a.mode == "hist")
   {
      const unsigned nops = (unsigned)a.getu("ops", 100);
      const size_t cap = (size_t)a.getu("cap", 300);
      for (uint64_t i = a.start; i < end; ++i)
      {
         out.curIdx = gIdx = i;
         gHist = 0;
         prog.set(i, fmt("hist start idx=%" PRIu64, i));
         history(i, a.seed, a.mode, nops, cap);
         out.stat("cases");
         out.distinct(gHist);
         if (out.wantSample()) out.sample("history " + std::to_string(i) + " ends with {" + gDescr.substr(0, 200) + "}");
      }
   }
   else
   {
      fprintf(stderr, "unknown mode %s\n", a.mode.c_str());
      return 3;
   }
   out.finish(a);
   return 0;
}
