// C19 - celma::common::ReadBuffer<> / WriteBuffer<>: byte-stream conservation for every pattern of
// request sizes and every chunking of the source.
//
// Every case is a *history*: a script of requests run against a freshly constructed buffer object.
// While it runs, everything observable at the public/virtual interface is recorded in an event log
//    read :  GET_CALL(n) . READDATA(cap)->k ... . GET_RET(n, bytes) | GET_THROW(n)
//    write:  APPEND_CALL(n) . WRITEDATA(n, bytes) ... . APPEND_RET | APPEND_THROW,
//            FLUSH_CALL . WRITEDATA ... . FLUSH_RET,  BUFFERED(v) after every request
// and an offline checker (check_read_log / check_write_log, independent of the templates) decides
// on the log alone:
//    * concatenation of all bytes returned by get() == prefix of the source stream,
//    * concatenation of all writeData() payloads == prefix of everything appended (order, exactly
//      once), == all of it after every flush() and after an append of more than N bytes,
//    * buffered() == appended - written,
//    * get(len > N) is refused (exception, nothing consumed), get/append(NULL, n > 0) are refused,
//      get(0)/append(0) do nothing.
// Source and append streams are a counter pattern pat(position): loss, duplication or reordering
// shows at the first wrong byte.  Destination blocks of get(), source blocks of append() are
// exact-size heap blocks, the internal buffers are `new unsigned char[N]`: ASan sees every access
// outside of them.  The source never returns 0 bytes when it is asked for >= 1 byte; being asked for
// 0 bytes repeatedly (no progress possible) ends the history with a violation instead of a hang.
//
// modes:  exh   all request sequences of length --seqlen for N = 1..--maxn (every shorter sequence is
//               a prefix, and the checker judges after every request) x 3 chunkings x 2 policies
//         rand  random histories of --nreq requests, N in {1,2,3,4,5,8,16,64}

#include "vh.hpp"

#include <exception>
#include <stdexcept>

#include "celma/common/read_buffer.hpp"
#include "celma/common/write_buffer.hpp"

static vh::Progress prog;
static vh::Out out;
static bool verbose = false;

/// counters keyed by string literals (std::map<std::string> lookups per request are too slow under ASan)
struct FastStats
{
   struct E { const char* k; uint64_t v; };
   E e[96];
   unsigned n = 0;
   void add(const char* k, uint64_t d = 1)
   {
      for (unsigned i = 0; i < n; ++i) if (e[i].k == k) { e[i].v += d; return; }
      for (unsigned i = 0; i < n; ++i) if (!strcmp(e[i].k, k)) { e[i].v += d; return; }
      if (n < 96) e[n++] = E{ k, d };
   }
   void flush() { for (unsigned i = 0; i < n; ++i) out.stat(e[i].k, e[i].v); n = 0; }
};
static FastStats fs;

// ------------------------------------------------------------------ stream pattern

static inline uint8_t pat(uint64_t p)
{
   // counter with a slowly changing offset: a shift by 1..254 positions changes every byte
   return static_cast<uint8_t>(p + (p >> 8) + 1);
}

// ------------------------------------------------------------------ script

enum OpKind : uint8_t { OP_GET, OP_GET_NULL, OP_APPEND, OP_APPEND_NULL, OP_FLUSH };
struct Op { OpKind kind; uint32_t n; };

enum Chunking : uint8_t { CH_ONE, CH_FULL, CH_MISSING, CH_RANDOM, CH_MIXED };
static const char* chunk_name(unsigned c)
{
   static const char* n[] = { "one", "full", "missing", "random", "mixed" };
   return c < 5 ? n[c] : "?";
}

struct Script
{
   bool write = false;
   unsigned N = 1;
   bool counted = false;
   unsigned chunking = CH_ONE;
   uint64_t chunkSeed = 0;
   std::vector<Op> ops;
};

static std::string op_text(const Op& o)
{
   char b[48];
   switch (o.kind)
   {
   case OP_GET: snprintf(b, sizeof b, "get(%u)", o.n); break;
   case OP_GET_NULL: snprintf(b, sizeof b, "get(NULL,%u)", o.n); break;
   case OP_APPEND: snprintf(b, sizeof b, "append(%u)", o.n); break;
   case OP_APPEND_NULL: snprintf(b, sizeof b, "append(NULL,%u)", o.n); break;
   default: snprintf(b, sizeof b, "flush"); break;
   }
   return b;
}

static std::string script_head_make(const Script& s)
{
   char b[128];
   if (s.write)
      snprintf(b, sizeof b, "WriteBuffer<%u,%s>", s.N, s.counted ? "WriteCountPolicy" : "EmptyWritePolicy");
   else
      snprintf(b, sizeof b, "ReadBuffer<%u,%s> source chunking=%s", s.N, s.counted ? "ReadCountPolicy" : "EmptyReadPolicy",
               chunk_name(s.chunking));
   return b;
}

static std::string curHead;   // head of the script that is running
static const std::string& script_head(const Script&) { return curHead; }

/// the requests up to and including request #upto (at most the last `maxOps`)
static std::string script_text(const Script& s, size_t upto, size_t maxOps = 14)
{
   std::string r = script_head(s) + ":";
   size_t first = upto + 1 > maxOps ? upto + 1 - maxOps : 0;
   if (first > 0) { char b[40]; snprintf(b, sizeof b, " ...(%zu earlier)", first); r += b; }
   for (size_t i = first; i <= upto && i < s.ops.size(); ++i) { r += ' '; r += op_text(s.ops[i]); }
   return r;
}

// ------------------------------------------------------------------ event log

enum EvKind : uint8_t
{
   EV_GET_CALL, EV_READDATA, EV_GET_RET, EV_GET_THROW, EV_GET_STUCK,
   EV_APPEND_CALL, EV_APPEND_RET, EV_APPEND_THROW, EV_FLUSH_CALL, EV_FLUSH_RET, EV_WRITEDATA,
   EV_BUFFERED, EV_STATS, EV_OTHER_EXC
};

struct Event
{
   EvKind kind;
   bool flag;        // GET_CALL/APPEND_CALL: NULL pointer passed
   uint32_t op;      // index of the request in the script
   uint64_t n;       // request length | capacity offered to readData | writeData length | buffered()
   uint64_t k;       // READDATA: bytes delivered
   size_t off;       // offset of the payload in Log::bytes (GET_RET, WRITEDATA)
   uint64_t st[4];   // EV_STATS
};

struct Log
{
   std::vector<Event> ev;
   std::vector<uint8_t> bytes;
   void clear() { ev.clear(); bytes.clear(); }
   Event& add(EvKind k, uint32_t op, uint64_t n = 0)
   {
      ev.push_back(Event{ k, false, op, n, 0, bytes.size(), { 0, 0, 0, 0 } });
      return ev.back();
   }
};

static void dump_log(const Log& log)
{
   static const char* nm[] = { "GET_CALL", "READDATA", "GET_RET", "GET_THROW", "GET_STUCK", "APPEND_CALL", "APPEND_RET",
                               "APPEND_THROW", "FLUSH_CALL", "FLUSH_RET", "WRITEDATA", "BUFFERED", "STATS", "OTHER_EXC" };
   for (const Event& e : log.ev)
   {
      printf("  [op %u] %s n=%" PRIu64, e.op, nm[e.kind], e.n);
      if (e.kind == EV_READDATA) printf(" -> %" PRIu64, e.k);
      if (e.kind == EV_GET_RET || e.kind == EV_WRITEDATA)
      {
         printf(" bytes=");
         for (uint64_t i = 0; i < e.n && i < 80; ++i) printf("%02x", log.bytes[e.off + i]);
      }
      if (e.kind == EV_STATS) printf(" %" PRIu64 " %" PRIu64 " %" PRIu64 " %" PRIu64, e.st[0], e.st[1], e.st[2], e.st[3]);
      printf("\n");
   }
}

// ------------------------------------------------------------------ instrumented buffers

struct Stuck {};   // thrown by the source when no progress is possible

struct SourceCtl
{
   Log* log = nullptr;
   unsigned chunking = CH_ONE;
   vh::Rng rng;
   uint64_t delivered = 0;     // source position
   uint64_t consumed = 0;      // bytes handed out by successful get()s (harness bookkeeping for CH_MISSING)
   uint64_t curRequest = 0;    // length of the get() in progress
   uint32_t curOp = 0;
   unsigned callsInGet = 0, zeroCapInGet = 0;
   unsigned maxCalls = 0;
   // evidence only (never judged): where inside the internal buffer the source is asked to write
   const unsigned char* base = nullptr;
   size_t lastEnd = 0;
};

template <size_t N, typename P> class Reader : public celma::common::ReadBuffer<N, P>
{
public:
   explicit Reader(SourceCtl& c) : ctl(c) {}

private:
   size_t readData(unsigned char* data, size_t len) override
   {
      SourceCtl& c = ctl;
      ++c.callsInGet;
      size_t k = 0;
      if (len == 0)
      {
         // nothing can be delivered; a source is never *expected* to return 0, so this is only
         // tolerated as long as the buffer does not insist
         ++c.zeroCapInGet;
         fs.add("read.readdata_zero_capacity");
      }
      else
      {
         unsigned pol = c.chunking;
         if (pol == CH_MIXED) pol = (unsigned)c.rng.below(4);
         switch (pol)
         {
         case CH_ONE: k = 1; break;
         case CH_FULL: k = len; break;
         case CH_MISSING:
         {
            uint64_t have = c.delivered - c.consumed;
            uint64_t missing = c.curRequest > have ? c.curRequest - have : 1;
            k = (size_t)(missing < len ? missing : len);
            break;
         }
         default: k = 1 + (size_t)c.rng.below(len); break;
         }
         {
            // which refill branch was taken (the first call always writes at the start of the buffer)
            if (!c.base) c.base = data;
            const size_t offs = (size_t)(data - c.base);
            const uint64_t have = c.delivered - c.consumed;
            if (have == 0) fs.add("read.refill_into_empty_buffer");
            else if (offs < c.lastEnd) fs.add("read.refill_after_compaction");
            else fs.add("read.refill_behind_data");
            c.lastEnd = offs + k;
         }
         for (size_t i = 0; i < k; ++i) data[i] = pat(c.delivered + i);   // ASan: [data, data+k) must be inside the buffer
         c.delivered += k;
      }
      Event& e = c.log->add(EV_READDATA, c.curOp, len);
      e.k = k;
      if (c.zeroCapInGet >= 2 || c.callsInGet > c.maxCalls) throw Stuck();
      return k;
   }
   SourceCtl& ctl;
};

struct SinkCtl
{
   Log* log = nullptr;
   uint32_t curOp = 0;
};

template <size_t N, typename P> class Writer : public celma::common::WriteBuffer<N, P>
{
public:
   explicit Writer(SinkCtl& c) : ctl(c) {}

private:
   void writeData(const unsigned char* const data, size_t len) const override
   {
      Event& e = ctl.log->add(EV_WRITEDATA, ctl.curOp, len);
      (void)e;
      for (size_t i = 0; i < len; ++i) ctl.log->bytes.push_back(data[i]);   // ASan: [data, data+len) must be readable
   }
   SinkCtl& ctl;
};

// ------------------------------------------------------------------ running a script

static char dbuf[256];

template <size_t N, typename P> static void run_read(const Script& s, Log& log, uint64_t idx)
{
   SourceCtl c;
   c.log = &log;
   c.chunking = s.chunking;
   c.rng = vh::Rng(s.chunkSeed);
   c.maxCalls = (unsigned)N + 8;
   auto* rb = new Reader<N, P>(c);
   for (uint32_t i = 0; i < s.ops.size(); ++i)
   {
      const Op& o = s.ops[i];
      snprintf(dbuf, sizeof dbuf, "get len=%u%s [request #%u of %s idx=%" PRIu64 "]", o.n, o.kind == OP_GET_NULL ? " NULL" : "", i,
               script_head(s).c_str(), idx);
      prog.descr(dbuf);
      c.curOp = i;
      c.curRequest = o.n;
      c.callsInGet = c.zeroCapInGet = 0;
      Event& call = log.add(EV_GET_CALL, i, o.n);
      call.flag = o.kind == OP_GET_NULL;
      unsigned char* dest = o.kind == OP_GET_NULL ? nullptr : new unsigned char[o.n];   // exact size
      bool stuck = false;
      try
      {
         // get() is a template over the destination type, the length is in bytes: every third request hands over a wider pointer
         switch ((i + o.n) % 3)
         {
         case 0: rb->get(dest, o.n); break;
         case 1: rb->get(reinterpret_cast<uint16_t*>(dest), o.n); fs.add("read.get_wide_destination_type"); break;
         default: rb->get(reinterpret_cast<uint32_t*>(dest), o.n); fs.add("read.get_wide_destination_type"); break;
         }
         Event& e = log.add(EV_GET_RET, i, o.n);
         (void)e;
         if (dest) for (uint32_t j = 0; j < o.n; ++j) log.bytes.push_back(dest[j]);
         else if (o.n > 0) log.ev.back().flag = true;   // returned although NULL was passed
         if (o.n <= N && dest) c.consumed += o.n;
         fs.add(o.n == 0 ? "read.get_zero" : "read.get_ok");
      }
      catch (const Stuck&)
      {
         log.add(EV_GET_STUCK, i, o.n);
         stuck = true;
      }
      catch (const std::exception&)
      {
         log.add(EV_GET_THROW, i, o.n);
         fs.add("read.get_refused");
      }
      delete[] dest;
      if (stuck) break;
   }
   {
      Event& e = log.add(EV_STATS, (uint32_t)s.ops.size());
      e.st[0] = rb->numSourceReads();
      e.st[1] = rb->bytesReadFromSource();
      e.st[2] = rb->numBufferReads();
      e.st[3] = rb->bytesReadFromBuffer();
   }
   delete rb;
}

template <size_t N, typename P> static void run_write(const Script& s, Log& log, uint64_t idx)
{
   SinkCtl c;
   c.log = &log;
   auto* wb = new Writer<N, P>(c);
   uint64_t app = 0;
   log.add(EV_BUFFERED, 0, wb->buffered());
   for (uint32_t i = 0; i <= s.ops.size(); ++i)
   {
      // the last round is the flush() a derived class is told to do in its destructor
      Op o = i < s.ops.size() ? s.ops[i] : Op{ OP_FLUSH, 0 };
      c.curOp = i;
      if (o.kind == OP_FLUSH)
      {
         snprintf(dbuf, sizeof dbuf, "flush [request #%u of %s idx=%" PRIu64 "]", i, script_head(s).c_str(), idx);
         prog.descr(dbuf);
         log.add(EV_FLUSH_CALL, i);
         try { wb->flush(); log.add(EV_FLUSH_RET, i); fs.add("write.flush"); }
         catch (const std::exception&) { log.add(EV_OTHER_EXC, i); }
      }
      else
      {
         snprintf(dbuf, sizeof dbuf, "append len=%u%s [request #%u of %s idx=%" PRIu64 "]", o.n, o.kind == OP_APPEND_NULL ? " NULL" : "",
                  i, script_head(s).c_str(), idx);
         prog.descr(dbuf);
         unsigned char* src = nullptr;
         if (o.kind == OP_APPEND)
         {
            src = new unsigned char[o.n];   // exact size
            for (uint32_t j = 0; j < o.n; ++j) src[j] = pat(app + j);
         }
         Event& call = log.add(EV_APPEND_CALL, i, o.n);
         call.flag = o.kind == OP_APPEND_NULL;
         try
         {
            wb->append(src, o.n);
            log.add(EV_APPEND_RET, i, o.n);
            if (src) app += o.n;
            fs.add(o.n == 0 ? "write.append_zero" : (o.n > N ? "write.append_oversized" : (o.n == N ? "write.append_full" : "write.append_ok")));
         }
         catch (const std::exception&)
         {
            log.add(EV_APPEND_THROW, i, o.n);
            fs.add("write.append_refused");
         }
         if (src)
         {
            // the caller may reuse its block as soon as append() returned
            memset(src, 0xEE, o.n);
            delete[] src;
         }
      }
      log.add(EV_BUFFERED, i, wb->buffered());
   }
   {
      Event& e = log.add(EV_STATS, (uint32_t)s.ops.size());
      e.st[0] = wb->numAppendCalled();
      e.st[1] = wb->bytesAppended();
      e.st[2] = wb->numFlushCalled();
      e.st[3] = wb->bytesFlushed();
   }
   delete wb;
}

template <typename RP, typename WP> static bool dispatch_n(const Script& s, Log& log, uint64_t idx)
{
#define RUN(NN) case NN: if (s.write) run_write<NN, WP>(s, log, idx); else run_read<NN, RP>(s, log, idx); return true;
   switch (s.N)
   {
      RUN(1) RUN(2) RUN(3) RUN(4) RUN(5) RUN(8) RUN(16) RUN(64)
   default: return false;
   }
#undef RUN
}

static bool dispatch(const Script& s, Log& log, uint64_t idx)
{
   using namespace celma::common;
   if (s.counted) return dispatch_n<ReadCountPolicy, WriteCountPolicy>(s, log, idx);
   return dispatch_n<EmptyReadPolicy, EmptyWritePolicy>(s, log, idx);
}

// ------------------------------------------------------------------ offline history checkers

struct Verdict
{
   bool bad = false;
   void fail(const Script& s, uint32_t op, const std::string& key, const std::string& what)
   {
      if (bad) return;   // first refuting event of a history only: later ones are consequences
      bad = true;
      out.viol(key, what + " | " + script_text(s, op));
   }
};

static std::string first_diff(const Log& log, const Event& e, uint64_t pos)
{
   for (uint64_t i = 0; i < e.n; ++i)
   {
      uint8_t got = log.bytes[e.off + i], want = pat(pos + i);
      if (got != want)
      {
         char b[200];
         // where in the stream does the byte that was seen belong?
         long shift = 0;
         bool found = false;
         for (long d = 1; d <= 200 && !found; ++d)
         {
            if ((int64_t)(pos + i) - d >= 0 && pat(pos + i - d) == got) { shift = -d; found = true; }
            else if (pat(pos + i + d) == got) { shift = d; found = true; }
         }
         if (found)
            snprintf(b, sizeof b, "stream position %" PRIu64 " (byte %" PRIu64 " of this block of %" PRIu64 "): expected 0x%02x, got 0x%02x = the byte of position %+ld",
                     pos + i, i, e.n, want, got, shift);
         else
            snprintf(b, sizeof b, "stream position %" PRIu64 " (byte %" PRIu64 " of this block of %" PRIu64 "): expected 0x%02x, got 0x%02x (not a nearby stream byte)",
                     pos + i, i, e.n, want, got);
         return b;
      }
   }
   return "";
}

static void check_read_log(const Script& s, const Log& log)
{
   const uint64_t N = s.N;
   Verdict v;
   uint64_t src = 0, got = 0;
   uint64_t nReadData = 0, nGetOk = 0, nGetOkNonZero = 0, readsInCall = 0;
   bool inGet = false, nullPtr = false;
   char b[200];
   for (const Event& e : log.ev)
   {
      switch (e.kind)
      {
      case EV_GET_CALL:
         inGet = true; nullPtr = e.flag; readsInCall = 0;
         break;
      case EV_READDATA:
         ++nReadData; ++readsInCall;
         if (!inGet) v.fail(s, e.op, "readData|called outside of get()", "readData called outside of a get()");
         src += e.k;
         fs.add("read.readdata_calls");
         break;
      case EV_GET_RET:
      {
         inGet = false;
         if (e.n > N)
         {
            snprintf(b, sizeof b, "get(%" PRIu64 ") on a buffer of %" PRIu64 " bytes was not refused", e.n, N);
            v.fail(s, e.op, "get|request larger than the buffer not refused", b);
            break;
         }
         if (nullPtr && e.n > 0)
         {
            v.fail(s, e.op, "get|NULL destination not refused", "get(NULL, n > 0) returned normally");
            break;
         }
         if (e.n == 0)
         {
            ++nGetOk;
            if (readsInCall) fs.add("read.get_zero_called_source");
            break;
         }
         std::string d = first_diff(log, e, got);
         if (!d.empty())
         {
            v.fail(s, e.op, "get|wrong byte (loss, duplication or reordering)", "bytes returned by get() are not the next bytes of the source: " + d);
            break;
         }
         got += e.n;
         ++nGetOk; ++nGetOkNonZero;
         if (got > src)
         {
            snprintf(b, sizeof b, "get() returned %" PRIu64 " bytes in total, the source delivered only %" PRIu64, got, src);
            v.fail(s, e.op, "get|returned bytes the source never delivered", b);
         }
         if (readsInCall == 0) fs.add("read.get_served_from_buffer");
         else if (readsInCall == 1) fs.add("read.get_one_source_read");
         else fs.add("read.get_several_source_reads");
         break;
      }
      case EV_GET_THROW:
         inGet = false;
         if (e.n >= 1 && e.n <= N && !nullPtr)
         {
            snprintf(b, sizeof b, "get(%" PRIu64 ") on a buffer of %" PRIu64 " bytes threw", e.n, N);
            v.fail(s, e.op, "get|valid request refused", b);
         }
         else if (e.n == 0)
            v.fail(s, e.op, "get|length 0 threw", "get(p, 0) threw, documented: simply returns");
         else if (e.n > N) fs.add("read.refused_oversized");
         else fs.add("read.refused_null");
         break;
      case EV_GET_STUCK:
         inGet = false;
         if (e.n > N)
         {
            snprintf(b, sizeof b, "get(%" PRIu64 ") on a buffer of %" PRIu64 " bytes was not refused: it keeps asking the source for 0 bytes", e.n, N);
            v.fail(s, e.op, "get|request larger than the buffer not refused", b);
         }
         else
         {
            snprintf(b, sizeof b, "get(%" PRIu64 ") on a buffer of %" PRIu64 " bytes never completes: source asked %" PRIu64 " times, repeatedly for 0 bytes (no room left in front of the data)",
                     e.n, N, readsInCall);
            v.fail(s, e.op, "get|no progress (source asked for 0 bytes)", b);
         }
         break;
      case EV_STATS:
         if (s.counted && !v.bad)
         {
            bool ok = e.st[0] == nReadData && e.st[1] == src && e.st[3] == got && e.st[2] >= nGetOkNonZero && e.st[2] <= nGetOk;
            if (!ok)
            {
               snprintf(b, sizeof b, "ReadCountPolicy reports sourceReads=%" PRIu64 " sourceBytes=%" PRIu64 " bufferReads=%" PRIu64 " bufferBytes=%" PRIu64
                        ", observed %" PRIu64 " readData calls / %" PRIu64 " bytes, %" PRIu64 "..%" PRIu64 " get()s / %" PRIu64 " bytes",
                        e.st[0], e.st[1], e.st[2], e.st[3], nReadData, src, nGetOkNonZero, nGetOk, got);
               v.fail(s, e.op ? e.op - 1 : 0, "stats|read counters differ from the observed calls", b);
            }
            fs.add("read.stats_checked");
         }
         else if (!s.counted && (e.st[0] | e.st[1] | e.st[2] | e.st[3]))
            v.fail(s, e.op ? e.op - 1 : 0, "stats|empty policy reports non-zero", "EmptyReadPolicy counter != 0");
         break;
      default:
         break;
      }
   }
   fs.add("read.bytes_compared", got);
}

static void check_write_log(const Script& s, const Log& log)
{
   const uint64_t N = s.N;
   Verdict v;
   uint64_t app = 0, wr = 0;          // accepted by append() so far / seen by the sink so far
   uint64_t pending = 0;              // length of the append in progress
   uint64_t nWrites = 0, nAppends = 0, nAppendsNonZero = 0, nFlushCalls = 0, writesInCall = 0;
   bool nullPtr = false;
   char b[240];
   for (const Event& e : log.ev)
   {
      switch (e.kind)
      {
      case EV_APPEND_CALL:
         pending = e.flag ? 0 : e.n; nullPtr = e.flag; writesInCall = 0;
         break;
      case EV_FLUSH_CALL:
         pending = 0; writesInCall = 0; ++nFlushCalls;
         break;
      case EV_WRITEDATA:
      {
         ++nWrites; ++writesInCall;
         fs.add("write.writedata_calls");
         if (e.n == 0) fs.add("write.writedata_zero_length");
         std::string d = first_diff(log, e, wr);
         if (!d.empty())
         {
            v.fail(s, e.op, "writeData|wrong byte (loss, duplication or reordering)", "bytes handed to writeData() are not the next appended bytes: " + d);
            break;
         }
         wr += e.n;
         if (wr > app + pending)
         {
            snprintf(b, sizeof b, "writeData() received %" PRIu64 " bytes in total, only %" PRIu64 " were appended", wr, app + pending);
            v.fail(s, e.op, "writeData|bytes that were never appended", b);
         }
         break;
      }
      case EV_APPEND_RET:
         if (nullPtr && e.n > 0)
         {
            v.fail(s, e.op, "append|NULL source not refused", "append(NULL, n > 0) returned normally");
            break;
         }
         app += e.n;
         pending = 0;
         ++nAppends;
         if (e.n > 0) ++nAppendsNonZero;
         if (e.n == 0 && writesInCall)
            v.fail(s, e.op, "append|length 0 wrote data", "append(p, 0) called writeData(), documented: does nothing");
         if (e.n > N)
         {
            if (wr != app)
            {
               snprintf(b, sizeof b, "append(%" PRIu64 ") on a buffer of %" PRIu64 " bytes returned with %" PRIu64 " of %" PRIu64 " appended bytes at the sink", e.n, N, wr, app);
               v.fail(s, e.op, "append|oversized block not passed through", b);
            }
            fs.add("write.passthrough_checked");
         }
         if (writesInCall && e.n > 0 && e.n < N) fs.add("write.append_forced_flush");
         break;
      case EV_APPEND_THROW:
         pending = 0;
         if (!(nullPtr && e.n > 0))
         {
            snprintf(b, sizeof b, "append(%" PRIu64 ") threw although the sink never fails", e.n);
            v.fail(s, e.op, "append|valid request refused", b);
         }
         else if (writesInCall)
            v.fail(s, e.op, "append|refused request wrote data", "append(NULL, n) called writeData()");
         else fs.add("write.refused_null");
         break;
      case EV_FLUSH_RET:
         if (wr != app)
         {
            snprintf(b, sizeof b, "after flush() the sink holds %" PRIu64 " of %" PRIu64 " appended bytes", wr, app);
            v.fail(s, e.op, "flush|appended bytes not at the sink after flush", b);
         }
         if (writesInCall == 0) fs.add("write.flush_empty"); else fs.add("write.flush_wrote");
         break;
      case EV_OTHER_EXC:
         v.fail(s, e.op, "flush|threw", "flush() threw although the sink never fails");
         break;
      case EV_BUFFERED:
         if (v.bad) break;
         if (e.n != app - wr)
         {
            snprintf(b, sizeof b, "buffered() = %" PRIu64 ", appended %" PRIu64 " - written %" PRIu64 " = %" PRIu64, e.n, app, wr, app - wr);
            v.fail(s, e.op, "buffered|differs from appended minus written", b);
         }
         else if (e.n > N)
         {
            snprintf(b, sizeof b, "buffered() = %" PRIu64 " on a buffer of %" PRIu64, e.n, N);
            v.fail(s, e.op, "buffered|more than the buffer size", b);
         }
         fs.add("write.buffered_checked");
         break;
      case EV_STATS:
         if (s.counted && !v.bad)
         {
            bool ok = e.st[1] == app && e.st[3] == wr && e.st[0] >= nAppendsNonZero && e.st[0] <= nAppends
                      && e.st[2] >= nWrites && e.st[2] <= nWrites + nFlushCalls + nAppends;
            if (!ok)
            {
               snprintf(b, sizeof b, "WriteCountPolicy reports appends=%" PRIu64 " appendedBytes=%" PRIu64 " flushes=%" PRIu64 " flushedBytes=%" PRIu64
                        ", observed %" PRIu64 "..%" PRIu64 " appends / %" PRIu64 " bytes, %" PRIu64 " writeData calls / %" PRIu64 " bytes",
                        e.st[0], e.st[1], e.st[2], e.st[3], nAppendsNonZero, nAppends, app, nWrites, wr);
               v.fail(s, e.op ? e.op - 1 : 0, "stats|write counters differ from the observed calls", b);
            }
            fs.add("write.stats_checked");
         }
         else if (!s.counted && (e.st[0] | e.st[1] | e.st[2] | e.st[3]))
            v.fail(s, e.op ? e.op - 1 : 0, "stats|empty policy reports non-zero", "EmptyWritePolicy counter != 0");
         break;
      default:
         break;
      }
   }
   // the last request of every history is a flush(): wr == app was judged there
   fs.add("write.bytes_compared", wr);
}

// ------------------------------------------------------------------ case generation

static const unsigned SIZES[8] = { 1, 2, 3, 4, 5, 8, 16, 64 };

static uint64_t ipow(uint64_t b, unsigned e) { uint64_t r = 1; while (e--) r *= b; return r; }

struct Block { bool write; unsigned N; bool counted; unsigned chunking; uint64_t size; };

/// layout of the exhaustive index space (the python side computes the same total)
static std::vector<Block> exh_blocks(unsigned maxn, unsigned seqlen)
{
   static const unsigned chunkings[3] = { CH_ONE, CH_FULL, CH_MISSING };
   std::vector<Block> bl;
   for (unsigned n = 1; n <= maxn; ++n)
      for (unsigned p = 0; p < 2; ++p)
      {
         for (unsigned c = 0; c < 3; ++c) bl.push_back(Block{ false, n, p != 0, chunkings[c], ipow(n + 3, seqlen) });   // get(0..N+2)
         bl.push_back(Block{ true, n, p != 0, 0, ipow(n + 4, seqlen) });                                                 // append(0..N+2) | flush
      }
   return bl;
}

static bool make_exh(uint64_t idx, unsigned maxn, unsigned seqlen, Script& s)
{
   static std::vector<Block> bl;
   static unsigned bm = 0, bs = 0;
   if (bl.empty() || bm != maxn || bs != seqlen) { bl = exh_blocks(maxn, seqlen); bm = maxn; bs = seqlen; }
   for (const Block& b : bl)
   {
      if (idx >= b.size) { idx -= b.size; continue; }
      s.write = b.write; s.N = b.N; s.counted = b.counted; s.chunking = b.chunking; s.chunkSeed = 0;
      s.ops.clear();
      const unsigned base = b.write ? b.N + 4 : b.N + 3;
      for (unsigned i = 0; i < seqlen; ++i)
      {
         unsigned d = (unsigned)(idx % base);
         idx /= base;
         if (b.write && d == b.N + 3) s.ops.push_back(Op{ OP_FLUSH, 0 });
         else s.ops.push_back(Op{ b.write ? OP_APPEND : OP_GET, d });
      }
      return true;
   }
   return false;
}

static void make_rand(vh::Rng& r, unsigned nreq, Script& s)
{
   s.write = r.chance(1, 2);
   s.N = SIZES[r.below(8)];
   s.counted = r.chance(1, 2);
   s.chunking = (unsigned)r.below(5);
   s.chunkSeed = r.next();
   s.ops.clear();
   const unsigned N = s.N;
   // request-size profile of this history
   const unsigned profile = (unsigned)r.below(5);
   const unsigned flushPer1000 = (unsigned)(r.chance(1, 3) ? r.range(0, 20) : r.range(20, 250));
   // histories of exactly nreq requests, a few shorter ones
   unsigned len = r.chance(1, 8) ? 1 + (unsigned)r.below(nreq) : nreq;
   for (unsigned i = 0; i < len; ++i)
   {
      if (s.write && r.below(1000) < flushPer1000) { s.ops.push_back(Op{ OP_FLUSH, 0 }); continue; }
      unsigned n;
      unsigned roll = (unsigned)r.below(100);
      if (roll < 5) n = 0;
      else if (roll < 11) n = N + 1 + (unsigned)r.below(2);           // refused / passed through
      else if (roll < 16) n = N;                                       // exactly the buffer
      else if (roll < 19 && N > 1) n = N - 1;
      else
      {
         switch (profile)
         {
         case 0: n = 1 + (unsigned)r.below(N); break;                                        // uniform 1..N
         case 1: n = 1 + (unsigned)r.below(N < 3 ? N : 3); break;                             // small
         case 2: n = N - (unsigned)r.below(N < 4 ? N : (N / 4 + 1)); break;                   // close to N
         case 3: n = r.chance(1, 2) ? 1 + (unsigned)r.below(N < 2 ? 1 : 2) : N - (unsigned)r.below(N < 2 ? 1 : 2); break;   // bimodal
         default: n = (unsigned)r.below(N + 3); break;                                        // 0..N+2
         }
      }
      if (r.below(400) == 0) s.ops.push_back(Op{ s.write ? OP_APPEND_NULL : OP_GET_NULL, n });
      else s.ops.push_back(Op{ s.write ? OP_APPEND : OP_GET, n });
   }
}

static uint64_t script_hash(const Script& s)
{
   uint64_t h = vh::hash_u64(((uint64_t)s.write << 40) | ((uint64_t)s.N << 16) | ((uint64_t)s.counted << 8) | s.chunking);
   if (!s.write && s.chunking >= CH_RANDOM) h = vh::hash_u64(s.chunkSeed, h);
   if (!s.ops.empty()) h = vh::hash_bytes(s.ops.data(), s.ops.size() * sizeof(Op), h);
   return h;
}

/// a history is non-trivial when at least one request moves data
static bool nontrivial(const Script& s)
{
   for (const Op& o : s.ops)
      if ((o.kind == OP_GET && o.n >= 1 && o.n <= s.N) || (o.kind == OP_APPEND && o.n >= 1)) return true;
   return false;
}

// ------------------------------------------------------------------ write buffer with a sink that fails once in a while
//
// mode wfault (an extension of the property's quantifier: the class tells implementers of writeData() to throw when the data
// cannot be written).  The sink is all-or-nothing: a writeData() call either takes all bytes or throws and takes none.  The
// caller repeats a failed append() / flush() until it succeeds.  Demanded: after the closing flush() the sink holds exactly
// the appended bytes, once, in order; buffered() never counts a byte the sink already has.

struct SinkFailure : std::runtime_error { SinkFailure() : std::runtime_error("sink cannot take the data now") {} };

template <size_t N> class FaultyWriter : public celma::common::WriteBuffer<N>
{
public:
   std::vector<unsigned char> sink;
   mutable unsigned failIn = 0;        // the failIn-th writeData() call from now fails (0 = never)
   mutable uint64_t failures = 0;
private:
   void writeData(const unsigned char* const data, size_t len) const override
   {
      if (failIn && --failIn == 0) { ++failures; throw SinkFailure(); }
      auto& s = const_cast<std::vector<unsigned char>&>(sink);
      s.insert(s.end(), data, data + len);
   }
};

template <size_t N> static void run_wfault(vh::Rng& r, uint64_t idx)
{
   auto* wb = new FaultyWriter<N>();
   uint64_t app = 0;
   const unsigned len = 4 + (unsigned)r.below(40);
   std::string hist;
   bool bad = false;
   auto attempt = [&](auto&& op, const char* what, unsigned n) {
      char b[40];
      snprintf(b, sizeof b, " %s(%u)", what, n);
      hist += b;
      for (unsigned tries = 0; tries < 4; ++tries)
      {
         if (r.chance(1, 4)) wb->failIn = 1 + (unsigned)r.below(2);
         try { op(); wb->failIn = 0; return; }
         catch (const SinkFailure&) { hist += "!"; fs.add("wfault.sink_failures"); }
         wb->failIn = 0;
      }
      op();      // the sink is healthy now
   };
   for (unsigned i = 0; i < len && !bad; ++i)
   {
      if (r.chance(1, 6)) attempt([&] { wb->flush(); }, "flush", 0);
      else
      {
         const unsigned n = (unsigned)r.below(N + 3);
         std::vector<unsigned char> src(n);
         for (unsigned j = 0; j < n; ++j) src[j] = pat(app + j);
         attempt([&] { wb->append(src.data(), n); }, "append", n);
         app += n;
      }
      fs.add("wfault.requests");
      // the sink plus the buffer hold exactly what was appended so far
      if (wb->sink.size() + wb->buffered() != app)
      {
         char b[200];
         snprintf(b, sizeof b, "sink %zu + buffered %zu != appended %" PRIu64, wb->sink.size(), (size_t)wb->buffered(), app);
         out.viol("wfault|bytes lost or duplicated after a failed writeData()", std::string(b) + " | N=" + std::to_string(N) + " history:" + hist);
         bad = true;
      }
   }
   if (!bad)
   {
      wb->failIn = 0;
      wb->flush();
      bool same = wb->sink.size() == app;
      for (uint64_t j = 0; same && j < app; ++j) same = wb->sink[j] == pat(j);
      if (!same)
         out.viol("wfault|sink content differs from the appended bytes", "sink holds " + std::to_string(wb->sink.size()) + " bytes, appended " +
                  std::to_string(app) + " | N=" + std::to_string(N) + " history:" + hist);
   }
   if (wb->failures) fs.add("wfault.histories_with_a_failing_sink");
   fs.add("cases");
   out.distinct(vh::hash_str(hist, N));
   if (out.wantSample() && idx % 97 == 5) out.sample("wfault N=" + std::to_string(N) + hist.substr(0, 200));
   delete wb;
}

// ------------------------------------------------------------------ main

int main(int argc, char** argv)
{
   vh::Args a = vh::parse_args(argc, argv);
   prog.open(a.progress);
   verbose = a.getu("verbose", 0) != 0;
   const uint64_t end = a.start + a.count;
   const unsigned seqlen = (unsigned)a.getu("seqlen", 6), maxn = (unsigned)a.getu("maxn", 4);
   const unsigned nreq = (unsigned)a.getu("nreq", 1000);
   if (a.mode == "wfault")
   {
      for (uint64_t i = a.start; i < end; ++i)
      {
         out.curIdx = i;
         vh::Rng r(vh::mix(a.seed, vh::mix(vh::hash_str("wfault"), i)));
         snprintf(dbuf, sizeof dbuf, "wfault idx=%" PRIu64, i);
         prog.set(i, dbuf);
         switch (i % 8)
         {
         case 0: run_wfault<1>(r, i); break;
         case 1: run_wfault<2>(r, i); break;
         case 2: run_wfault<3>(r, i); break;
         case 3: run_wfault<4>(r, i); break;
         case 4: run_wfault<5>(r, i); break;
         case 5: run_wfault<8>(r, i); break;
         case 6: run_wfault<16>(r, i); break;
         default: run_wfault<64>(r, i); break;
         }
      }
      fs.flush();
      out.finish(a);
      return 0;
   }
   const bool exh = a.mode == "exh";
   if (!exh && a.mode != "rand") { fprintf(stderr, "unknown mode %s\n", a.mode.c_str()); return 3; }
   if (exh && (maxn < 1 || maxn > 5 || seqlen < 1 || seqlen > 9)) { fprintf(stderr, "bad --maxn/--seqlen\n"); return 3; }

   // the pattern must distinguish every shift the buffers could produce
   for (uint64_t p = 0; p < 70000; ++p)
      for (uint64_t d = 1; d <= 130; ++d)
         if (pat(p) == pat(p + d)) { fprintf(stderr, "pattern repeats: %" PRIu64 " +%" PRIu64 "\n", p, d); return 3; }

   Script s;
   Log log;
   for (uint64_t i = a.start; i < end; ++i)
   {
      out.curIdx = i;
      if (exh)
      {
         if (!make_exh(i, maxn, seqlen, s)) { fprintf(stderr, "case index %" PRIu64 " outside of the exhaustive space\n", i); return 3; }
      }
      else
      {
         vh::Rng r(vh::mix(a.seed, vh::mix(vh::hash_str(a.mode), i)));
         make_rand(r, nreq, s);
      }
      curHead = script_head_make(s);
      prog.set(i, std::string(s.write ? "append" : "get") + " [start of " + script_head(s) + "]");
      log.clear();
      if (!dispatch(s, log, i)) { fprintf(stderr, "no instantiation for N=%u\n", s.N); return 3; }
      prog.descr("check-log");
      const uint64_t before = out.stats["violations_observed"];
      if (s.write) check_write_log(s, log); else check_read_log(s, log);
      fs.add("cases");
      fs.add(s.write ? "histories.write" : "histories.read");
      fs.add("requests", s.ops.size());
      {
         static const char* sz[8] = { "size.N1", "size.N2", "size.N3", "size.N4", "size.N5", "size.N8", "size.N16", "size.N64" };
         static const char* ch[5] = { "chunking.one", "chunking.full", "chunking.missing", "chunking.random", "chunking.mixed" };
         for (unsigned q = 0; q < 8; ++q) if (SIZES[q] == s.N) fs.add(sz[q]);
         if (!s.write) fs.add(ch[s.chunking]);
         fs.add(s.counted ? "policy.count" : "policy.empty");
      }
      if (nontrivial(s))
      {
         if (exh) fs.add("distinct_exact"); else out.distinct(script_hash(s));
      }
      else fs.add("trivial_histories");
      const bool failed = out.stats["violations_observed"] != before;
      if (verbose || (failed && a.count == 1))
      {
         printf("history %" PRIu64 ": %s\n", i, script_text(s, s.ops.size() ? s.ops.size() - 1 : 0, 2000).c_str());
         dump_log(log);
      }
      if (out.wantSample() && nontrivial(s) && (exh ? i % 50021 == 17 : i % 997 == 3))
         out.sample(script_text(s, s.ops.size() ? s.ops.size() - 1 : 0, 10));
   }
   fs.flush();
   out.finish(a);
   return 0;
}
