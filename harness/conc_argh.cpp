// C09 - independent argument handlers can be used concurrently.
//
// case idx: T = {2,4,8,16}[idx % 4] threads, perturbation level = (idx / 4) % 3 (mode `corrupt`:
// always the strongest level).  Every thread gets its OWN scenario (kind + parameters drawn from
// (seed, mode, idx, thread)) and repeats
//     construct Handler -> addArgument ... -> evalArguments -> dump
// `iters` times on destination variables that live on its own stack; nothing is shared between
// the threads except what the library itself shares.  Scenarios of the threads of one case differ
// exactly in the state that could be shared inside the library: list separators of container
// destinations, pair separators, constraint lists (split with ';'), value lists of checks (split
// with ','), formats, usage / summary printing into per-thread string streams.
//
// Oracle 1 (sequential equivalence): before the threads start, every scenario is run alone on
// the main thread; each dump produced inside a thread must be identical.
// Oracle 2: ThreadSanitizer (tsan flavour, reports counted by lib/tsan.py) resp. ASan/UBSan
// (mode `corrupt`, asan flavour, sleeping hook inside Tokenizer::convChar2String so that a wrong
// separator becomes observable by oracle 1).
//
// No stdio inside the threads; mismatches are collected per thread and printed after join.
#include "vh.hpp"

#include <array>
#include <atomic>
#include <bitset>
#include <cxxabi.h>
#include <fstream>
#include <map>
#include <sched.h>
#include <set>
#include <sstream>
#include <string>
#include <thread>
#include <time.h>
#include <tuple>
#include <typeinfo>
#include <sys/stat.h>
#include <unistd.h>
#include <vector>

#include "celma/prog_args.hpp"
#include "celma/prog_args/groups.hpp"

using celma::prog_args::Handler;

namespace {

// ------------------------------------------------------------------ hook

std::atomic<uint64_t> gHookHits{ 0 }, gInWindow{ 0 }, gOverlaps{ 0 };
std::atomic<uint64_t> gDelayCount[5];

struct ThreadCtx
{
   bool active = false;
   int level = 0;
   vh::Rng rng;
};
thread_local ThreadCtx tctx;

void sleepNs(long ns)
{
   struct timespec ts = { 0, ns };
   nanosleep(&ts, nullptr);
}

/// delay classes: 0 none, 1 yield, 2 1us, 3 50us, 4 1ms
int drawDelay(vh::Rng& r, int level)
{
   if (level <= 0) return 0;
   unsigned x = (unsigned)r.below(1000);
   if (level == 1) return x < 600 ? 0 : x < 850 ? 1 : x < 980 ? 2 : 3;
   if (level == 2) return x < 400 ? 0 : x < 600 ? 1 : x < 850 ? 2 : x < 995 ? 3 : 4;
   return x < 100 ? 0 : x < 200 ? 1 : x < 500 ? 2 : x < 998 ? 3 : 4;   // level 3 (corrupt)
}

}   // namespace

extern "C" void celma_verif_point(const char* name)
{
   (void)name;   // only one point is reachable from this harness: tokenizer.conv_char2string
   gHookHits.fetch_add(1, std::memory_order_relaxed);
   ThreadCtx& c = tctx;
   if (!c.active) return;
   uint64_t n = gInWindow.fetch_add(1, std::memory_order_relaxed) + 1;
   if (n > 1) gOverlaps.fetch_add(1, std::memory_order_relaxed);   // another thread is inside the window
   int d = drawDelay(c.rng, c.level);
   gDelayCount[d].fetch_add(1, std::memory_order_relaxed);
   switch (d)
   {
   case 1: sched_yield(); break;
   case 2: sleepNs(1000); break;
   case 3: sleepNs(50000); break;
   case 4: sleepNs(1000000); break;
   default: break;
   }
   gInWindow.fetch_sub(1, std::memory_order_relaxed);
}

namespace {

// ------------------------------------------------------------------ scenarios

enum Kind { K_VEC_INT = 0, K_VEC_STR, K_MAP, K_REQUIRES, K_EXCLUDES, K_GLOBAL, K_CHECKS, K_USAGE, K_LISTVARS,
            K_TUPLE, K_BITSET, K_SET_FORMAT, K_ENVVAR, K_ARGFILE, K_ENDVALUES, NKINDS };
const char* const kindNames[NKINDS] = { "vector-int", "vector-string", "map", "requires", "excludes", "global-constraint",
                                        "checks", "usage", "list-arg-vars", "tuple-array", "bitset", "set-format", "env-var", "arg-file", "end-values" };
/// family of a scenario kind = what the stable key of a sequential-equivalence violation names
/// (one defect in shared state must not produce a dozen keys, different areas stay apart)
const char* const kindFamily[NKINDS] = { "container-values", "container-values", "container-values", "constraints", "constraints",
                                         "constraints", "checks", "output", "output", "container-values", "container-values",
                                         "container-values", "sources", "sources", "container-values" };
const char SEPS[7] = { ',', ';', ':', '+', '|', '/', '#' };
const char* const WORDS[12] = { "alpha", "Bravo", "charlie", "DELTA", "echo", "Foxtrot", "golf", "Hotel", "india", "JULIET", "kilo", "Lima" };

std::string gFileDir;      // argument files of the arg-file scenarios

struct Scenario
{
   int kind = 0;
   char sep = ',';          // list separator
   char sep2 = '=';         // pair separator
   int variant = 0;         // sub-variant of the kind
   std::vector<int> nums;
   std::vector<std::string> words;
   std::vector<std::string> argv;   // without argv[0]
   std::string descr;
};

std::string joinInts(const std::vector<int>& v, char sep)
{
   std::string s;
   for (size_t i = 0; i < v.size(); ++i) { if (i) s += sep; s += std::to_string(v[i]); }
   return s;
}
std::string joinStrs(const std::vector<std::string>& v, char sep)
{
   std::string s;
   for (size_t i = 0; i < v.size(); ++i) { if (i) s += sep; s += v[i]; }
   return s;
}

Scenario makeScenario(vh::Rng& r, int kind, int sepIdx)
{
   Scenario sc;
   sc.kind = kind;
   sc.sep = SEPS[sepIdx % 7];
   sc.sep2 = SEPS[(sepIdx + 1 + r.below(5)) % 7];       // always != sep
   sc.variant = (int)r.below(8);
   int n = 2 + (int)r.below(5);
   for (int i = 0; i < n; ++i) sc.nums.push_back((int)r.range(1, 999));
   for (int i = 0; i < n; ++i) sc.words.push_back(WORDS[r.below(12)]);
   switch (kind)
   {
   case K_VEC_INT:
      // variant bit 0: value split over two uses, bit 1: sort, bit 2: unique
      if (sc.variant & 1)
      {
         size_t h = sc.nums.size() / 2;
         std::vector<int> a(sc.nums.begin(), sc.nums.begin() + h), b(sc.nums.begin() + h, sc.nums.end());
         sc.argv = { "-v", joinInts(a, sc.sep), "--values", joinInts(b, sc.sep) };
      }
      else sc.argv = { "-v", joinInts(sc.nums, sc.sep) };
      break;
   case K_VEC_STR:
      // variant % 4: 0 plain, 1 uppercase, 2 lowercase, 3 anycase
      sc.argv = { "--names=" + joinStrs(sc.words, sc.sep), "-c", std::to_string(sc.nums[0]) };
      break;
   case K_MAP:
   {
      std::string v;
      for (size_t i = 0; i < sc.nums.size(); ++i)
      {
         if (i) v += sc.sep;
         std::string p = std::to_string(sc.nums[i]) + sc.sep2 + sc.words[i];
         v += (sc.variant & 1) ? "{" + p + "}" : p;
      }
      sc.argv = { "-m", v };
      break;
   }
   case K_REQUIRES:
      // n requires "i;o,opt".  variant % 4: 0 all given, 1 o missing (error), 2 n not used, 3 i missing (error)
      switch (sc.variant % 4)
      {
      case 0: sc.argv = { "-n", sc.words[0], "-i", std::to_string(sc.nums[0]), "-o", sc.words[1] }; break;
      case 1: sc.argv = { "-n", sc.words[0], "-i", std::to_string(sc.nums[0]) }; break;
      case 2: sc.argv = { "-i", std::to_string(sc.nums[0]) }; break;
      default: sc.argv = { "-n", sc.words[0], "-o", sc.words[1] }; break;
      }
      break;
   case K_EXCLUDES:
      // n excludes "i;o,opt".  variant % 3: 0 only n, 1 n then i (error), 2 i and o without n
      switch (sc.variant % 3)
      {
      case 0: sc.argv = { "-n", sc.words[0], "-x", std::to_string(sc.nums[1]) }; break;
      case 1: sc.argv = { "-n", sc.words[0], "-i", std::to_string(sc.nums[0]) }; break;
      default: sc.argv = { "-i", std::to_string(sc.nums[0]), "-o", sc.words[1] }; break;
      }
      break;
   case K_GLOBAL:
      // variant % 3 selects all_of / any_of / one_of over "n;i;r", (variant / 3) % 3 the number of arguments used
      switch ((sc.variant / 3) % 3)
      {
      case 0: sc.argv = { "-n", sc.words[0] }; break;
      case 1: sc.argv = { "-n", sc.words[0], "-i", std::to_string(sc.nums[0]), "-r", std::to_string(sc.nums[1]) }; break;
      default: sc.argv = { "-x", std::to_string(sc.nums[0]) }; break;
      }
      break;
   case K_CHECKS:
      // int with range / lower+upper, string with values-list; some values violate the check
      sc.argv = { "-i", std::to_string(sc.nums[0]), "-w", sc.words[0], "-l", sc.words[1] };
      break;
   case K_USAGE:
      sc.argv = { "-v", joinInts(sc.nums, sc.sep), "-h" };
      break;
   case K_LISTVARS:
      sc.argv = { "--list-arg-vars", "-v", joinInts(sc.nums, sc.sep), "-s", sc.words[0], "--list-arg-vars" };
      break;
   case K_TUPLE:
      sc.argv = { "-t", std::to_string(sc.nums[0]) + sc.sep + sc.words[0] + sc.sep + std::to_string(sc.nums[1]),
                  "-a", joinInts(std::vector<int>(sc.nums.begin(), sc.nums.begin() + 2), sc.sep2) };
      break;
   case K_BITSET:
   {
      std::vector<int> bits;
      for (int v : sc.nums) bits.push_back(v % 32);
      sc.argv = { "-b", joinInts(bits, sc.sep) };
      break;
   }
   case K_SET_FORMAT:
      sc.argv = { "-s", joinStrs(sc.words, sc.sep), "-n", joinInts(sc.nums, sc.sep2) };
      break;
   case K_ENDVALUES:
   {
      // every scenario registers the "end of the value list" argument under its own key (variant); a multi-value list,
      // the end marker, then the free value of the positional argument
      static const char* const LONGS[4] = { "endvalues", "end-list", "stop", "end" };
      std::vector<std::string> v = { "-v" };
      for (int n : sc.nums) v.push_back(std::to_string(n));
      v.push_back(std::string("--") + LONGS[sc.variant % 4]);
      v.push_back(sc.words[0]);
      sc.argv = v;
      break;
   }
   case K_ARGFILE:
      // argument file <dir>/args<variant % 4>.txt (written in main() before any thread starts): variant < 4 -> all threads of a
      // case read the same file; the file holds "-i <n>" and "--tag file<k>", two of them include a nested file
      sc.argv = { "-s", sc.words[0], "--arg-file", gFileDir + "/args" + std::to_string(sc.variant % 4) + ".txt" };
      if (sc.variant & 4) std::swap(sc.argv[0], sc.argv[2]), std::swap(sc.argv[1], sc.argv[3]);
      break;
   case K_ENVVAR:
      // the program file name (argv[0], differs per scenario: variant) names the environment variable TOOL<variant>,
      // set in main() before any thread starts; the command line adds -s
      sc.argv = { "-s", sc.words[0] };
      break;
   }
   char b[64];
   snprintf(b, sizeof b, "%s sep='%c' sep2='%c' variant=%d argv=", kindNames[kind], sc.sep, sc.sep2, sc.variant);
   sc.descr = b;
   for (auto& a : sc.argv) sc.descr += " " + a;
   return sc;
}

std::string demangle(const char* n)
{
   int st = 0;
   char* d = abi::__cxa_demangle(n, nullptr, nullptr, &st);
   std::string s = (st == 0 && d) ? d : n;
   free(d);
   return s;
}

template <class C> std::string dumpSeq(const C& c)
{
   std::ostringstream o;
   o << "[";
   bool first = true;
   for (const auto& e : c) { if (!first) o << "\x1f"; first = false; o << e; }
   o << "]";
   return o.str();
}

/// one complete use of an argument handler; everything it touches is local
std::string runScenario(const Scenario& sc)
{
   namespace pa = celma::prog_args;
   std::ostringstream out, err, dump;
   std::vector<std::string> store;
   if (sc.kind == K_ENVVAR)
      store.push_back(std::string((sc.variant & 1) ? "/opt/celma/bin/" : (sc.variant & 2) ? "./" : "") + "tool" + std::to_string(sc.variant));
   else store.push_back("prog");
   for (auto& a : sc.argv) store.push_back(a);
   std::vector<char*> av;
   for (auto& s : store) av.push_back(&s[0]);
   av.push_back(nullptr);
   const int ac = (int)store.size();
   std::string outcome = "ok";
   try
   {
      switch (sc.kind)
      {
      case K_VEC_INT:
      {
         std::vector<int> values;
         Handler ah(out, err, 0);
         auto* a = ah.addArgument("v,values", DEST_VAR(values), "values")->setListSep(sc.sep)
                      ->setCardinality(pa::cardinality_max(10));
         if (sc.variant & 2) a->setSortData();
         if (sc.variant & 4) a->setUniqueData();
         ah.evalArguments(ac, av.data());
         dump << "values=" << dumpSeq(values);
         break;
      }
      case K_VEC_STR:
      {
         std::vector<std::string> names;
         int count = -1;
         Handler ah(out, err, 0);
         auto* a = ah.addArgument("names", DEST_VAR(names), "names")->setListSep(sc.sep);
         switch (sc.variant % 4)
         {
         case 1: a->addFormat(pa::uppercase()); break;
         case 2: a->addFormat(pa::lowercase()); break;
         case 3: a->addFormat(pa::anycase("Ullll")); break;
         default: break;
         }
         ah.addArgument("c,count", DEST_VAR(count), "count")->addCheck(pa::range(1, 1000));
         ah.evalArguments(ac, av.data());
         dump << "names=" << dumpSeq(names) << " count=" << count;
         break;
      }
      case K_MAP:
      {
         std::map<int, std::string> m;
         Handler ah(out, err, 0);
         std::string pf(1, sc.sep2);
         if (sc.variant & 1) pf += "{}";
         ah.addArgument("m,map", DEST_VAR(m), "map")->setListSep(sc.sep)->setPairFormat(pf);
         ah.evalArguments(ac, av.data());
         dump << "map=[";
         for (auto& kv : m) dump << kv.first << "=>" << kv.second << "\x1f";
         dump << "]";
         break;
      }
      case K_REQUIRES:
      case K_EXCLUDES:
      {
         std::string name, opt;
         int idx = -1, x = -1;
         Handler ah(out, err, 0);
         auto* a = ah.addArgument("n", DEST_VAR(name), "Name");
         static const char* const SPECS[4] = { "i;o,opt", "i", "o,opt;i", "opt;x" };
         const char* spec = SPECS[(sc.nums[0] + sc.nums[1]) % 4];
         if (sc.kind == K_REQUIRES) a->addConstraint(pa::requiresArg(spec));
         else a->addConstraint(pa::excludes(spec));
         ah.addArgument("i", DEST_VAR(idx), "Index");
         ah.addArgument("o,opt", DEST_VAR(opt), "Optional");
         ah.addArgument("x", DEST_VAR(x), "Extra");
         ah.evalArguments(ac, av.data());
         dump << "name=" << name << " idx=" << idx << " opt=" << opt << " x=" << x;
         break;
      }
      case K_GLOBAL:
      {
         std::string name;
         int idx = -1, rate = -1, x = -1;
         Handler ah(out, err, 0);
         ah.addArgument("n", DEST_VAR(name), "Name");
         ah.addArgument("i", DEST_VAR(idx), "Index");
         ah.addArgument("r", DEST_VAR(rate), "Rate");
         ah.addArgument("x", DEST_VAR(x), "Extra");
         // the argument list of the constraint differs between scenarios (state that a static cache would share)
         static const char* const LISTS[6] = { "n;i;r", "n;i", "i;r", "n;x", "i;r;x", "x;n;r" };
         const char* list = LISTS[(sc.nums[0] + sc.nums[1]) % 6];
         switch (sc.variant % 3)
         {
         case 0: ah.addConstraint(pa::all_of(list)); break;
         case 1: ah.addConstraint(pa::any_of(list)); break;
         default: ah.addConstraint(pa::one_of(list)); break;
         }
         ah.evalArguments(ac, av.data());
         dump << "name=" << name << " idx=" << idx << " rate=" << rate << " x=" << x;
         break;
      }
      case K_CHECKS:
      {
         int i = -1;
         std::string w, l;
         Handler ah(out, err, 0);
         auto* a = ah.addArgument("i", DEST_VAR(i), "Integer");
         if (sc.variant & 1) a->addCheck(pa::range(1, 500));
         else a->addCheck(pa::lower(100))->addCheck(pa::upper(900));
         // value list: some of the words, split with ',' inside the library
         ah.addArgument("w", DEST_VAR(w), "Word")->addCheck(pa::values("alpha,Bravo,charlie,DELTA,echo,Foxtrot", (sc.variant & 2) != 0));
         ah.addArgument("l", DEST_VAR(l), "Length")->addCheck(pa::minLength(4))->addCheck(pa::maxLength(6));
         ah.evalArguments(ac, av.data());
         dump << "i=" << i << " w=" << w << " l=" << l;
         break;
      }
      case K_USAGE:
      {
         std::vector<int> values;
         std::string name = "dflt";
         bool flag = false;
         int mand = 0;
         Handler ah(out, err, Handler::hfHelpShort | Handler::hfHelpLong | Handler::hfUsageCont);
         ah.addArgument("v,values", DEST_VAR(values), "A list of values, separated by the list separator")->setListSep(sc.sep);
         ah.addArgument("n,name", DEST_VAR(name), "The name, has a default value")->setPrintDefault(true);
         ah.addArgument("f,flag", DEST_VAR(flag), "A flag");
         if (sc.variant & 1) ah.addArgument("hidden", DEST_VAR(mand), "A hidden argument")->setIsHidden();
         ah.evalArguments(ac, av.data());
         dump << "values=" << dumpSeq(values) << " name=" << name << " flag=" << flag;
         break;
      }
      case K_LISTVARS:
      {
         std::vector<int> values;
         std::string s;
         Handler ah(out, err, Handler::hfListArgVar | ((sc.variant & 1) ? Handler::hfVerboseArgs : 0));
         ah.addArgument("v,values", DEST_VAR(values), "values")->setListSep(sc.sep);
         ah.addArgument("s,string", DEST_VAR(s), "string")->addFormat(pa::lowercase());
         ah.evalArguments(ac, av.data());
         ah.printSummary(out);
         dump << "values=" << dumpSeq(values) << " s=" << s;
         break;
      }
      case K_TUPLE:
      {
         std::tuple<int, std::string, int> t{ 0, "", 0 };
         std::array<int, 2> arr{ { 0, 0 } };
         Handler ah(out, err, 0);
         ah.addArgument("t", DEST_VAR(t), "tuple")->setListSep(sc.sep);
         ah.addArgument("a", DEST_VAR(arr), "array")->setListSep(sc.sep2);
         ah.evalArguments(ac, av.data());
         dump << "t=" << std::get<0>(t) << "/" << std::get<1>(t) << "/" << std::get<2>(t) << " arr=" << arr[0] << "," << arr[1];
         break;
      }
      case K_BITSET:
      {
         std::bitset<32> b;
         Handler ah(out, err, 0);
         ah.addArgument("b", DEST_VAR(b), "bits")->setListSep(sc.sep);
         ah.evalArguments(ac, av.data());
         dump << "b=" << b.to_string();
         break;
      }
      case K_ENVVAR:
      {
         int i = -1;
         std::string s, tag;
         std::string pa;
         // also reads $HOME/.progargs/tool<variant>.pa (written in main()): the program name is used twice per evaluation
         Handler ah(out, err, Handler::hfEnvVarArgs | Handler::hfReadProgArg);
         ah.addArgument("i", DEST_VAR(i), "Integer");
         ah.addArgument("s", DEST_VAR(s), "String");
         ah.addArgument("tag", DEST_VAR(tag), "Tag");
         ah.addArgument("pa", DEST_VAR(pa), "From the program argument file");
         ah.evalArguments(ac, av.data());
         dump << "i=" << i << " s=" << s << " tag=" << tag << " pa=" << pa;
         break;
      }
      case K_ENDVALUES:
      {
         static const char* const SPECS[4] = { "endvalues", "E,end-list", "stop", "x,end" };
         std::vector<int> v;
         std::string free;
         Handler ah(out, err, 0);
         ah.addArgumentEndValues(SPECS[sc.variant % 4]);
         ah.addArgument("v", DEST_VAR(v), "Values")->setTakesMultiValue();
         ah.addArgument("-", DEST_VAR(free), "Free value");
         ah.evalArguments(ac, av.data());
         dump << "v=" << dumpSeq(v) << " free=" << free;
         break;
      }
      case K_ARGFILE:
      {
         int i = -1;
         std::string s, tag;
         std::vector<int> v;
         Handler ah(out, err, 0);
         ah.addArgumentFile("arg-file");
         ah.addArgument("i", DEST_VAR(i), "Integer");
         ah.addArgument("s", DEST_VAR(s), "String");
         ah.addArgument("tag", DEST_VAR(tag), "Tag");
         ah.addArgument("v", DEST_VAR(v), "Values");
         ah.evalArguments(ac, av.data());
         dump << "i=" << i << " s=" << s << " tag=" << tag << " v=" << dumpSeq(v);
         break;
      }
      case K_SET_FORMAT:
      {
         std::set<std::string> s;
         std::vector<int> n;
         Handler ah(out, err, 0);
         ah.addArgument("s", DEST_VAR(s), "set")->setListSep(sc.sep)->addFormat(pa::uppercase());
         ah.addArgument("n", DEST_VAR(n), "numbers")->setListSep(sc.sep2)->addCheck(pa::lower(1));
         ah.evalArguments(ac, av.data());
         dump << "s=" << dumpSeq(s) << " n=" << dumpSeq(n);
         break;
      }
      }
   }
   catch (const std::exception& e)
   {
      outcome = "throw:" + demangle(typeid(e).name()) + ":" + e.what();
   }
   catch (...)
   {
      outcome = "throw:unknown";
   }
   return outcome + " | " + dump.str() + " | out=" + out.str() + " | err=" + err.str();
}

// ------------------------------------------------------------------ one case

const unsigned THREADS[4] = { 2, 4, 8, 16 };

struct Worker
{
   Scenario sc;
   std::string expected;
   uint64_t seed = 0;
   // results, written by the worker thread only, read after join
   uint64_t evals = 0, mismatches = 0;
   std::vector<std::string> firstBad;
   char pad[64];
};

std::atomic<unsigned> gArrived{ 0 };
std::atomic<int> gGo{ 0 };

void workerMain(Worker* w, unsigned iters, int level)
{
   tctx.active = true;
   tctx.level = level;
   tctx.rng = vh::Rng(w->seed);
   gArrived.fetch_add(1, std::memory_order_acq_rel);
   unsigned spins = 0;
   while (!gGo.load(std::memory_order_acquire))
   {
      if (++spins < 300) __builtin_ia32_pause();
      else sched_yield();
   }
   for (unsigned i = 0; i < iters; ++i)
   {
      std::string got = runScenario(w->sc);
      ++w->evals;
      if (got != w->expected)
      {
         ++w->mismatches;
         if (w->firstBad.size() < 2) w->firstBad.push_back(got);
      }
   }
   tctx.active = false;
}

std::string oneLine(std::string s, size_t max = 500)
{
   s = vh::printable(s);
   if (s.size() > max) { s.resize(max); s += "..."; }
   return s;
}

}   // namespace

int main(int argc, char** argv)
{
   vh::Args a = vh::parse_args(argc, argv);
   vh::Out out;
   vh::Progress prog;
   prog.open(a.progress);
   const bool verbose = a.getu("verbose", 0) != 0;
   if (verbose) out.maxSamples = 1000;
   const unsigned iters = (unsigned)a.getu("iters", 100);
   const uint64_t rep = a.getu("rep", 0);      // repetition number: varies only the hook delays
   const bool corrupt = a.mode == "corrupt";
   if (a.mode != "race" && !corrupt)
   {
      fprintf(stderr, "unknown mode %s\n", a.mode.c_str());
      return 3;
   }
   {
      // argument files of the arg-file scenarios: written once, only read afterwards; 2 and 3 include another file
      const char* base = getenv("TMPDIR");
      char dir[512];
      snprintf(dir, sizeof dir, "%s/celma-c09.XXXXXX", (base && *base) ? base : "/tmp");
      if (!mkdtemp(dir)) { perror("mkdtemp"); return 2; }
      gFileDir = dir;
      for (int k = 0; k < 4; ++k)
      {
         std::ofstream f(gFileDir + "/args" + std::to_string(k) + ".txt");
         f << "# arguments of file " << k << "\n-i " << (2000 + k) << "\n";
         if (k >= 2) f << "--arg-file " << gFileDir << "/inner" << k << ".txt\n";
         f << "--tag file" << k << "\n-v " << k << "," << (k + 1) << "," << (k + 2) << "\n";
      }
      for (int k = 2; k < 4; ++k)
      {
         std::ofstream f(gFileDir + "/inner" + std::to_string(k) + ".txt");
         f << "-v " << (10 * k) << "," << (10 * k + 1) << "\n";
      }
      atexit([] { for (int k = 0; k < 4; ++k) { unlink((gFileDir + "/args" + std::to_string(k) + ".txt").c_str()); unlink((gFileDir + "/inner" + std::to_string(k) + ".txt").c_str()); } rmdir(gFileDir.c_str()); });
   }
   {
      // program argument files $HOME/.progargs/tool<v>.pa of the env-var scenarios (hfReadProgArg); HOME never changes afterwards
      setenv("HOME", gFileDir.c_str(), 1);
      mkdir((gFileDir + "/.progargs").c_str(), 0700);
      for (int v = 0; v < 8; ++v)
      {
         std::ofstream f(gFileDir + "/.progargs/tool" + std::to_string(v) + ".pa");
         f << "--pa pa" << v << "\n";
      }
      atexit([] { for (int v = 0; v < 8; ++v) unlink((gFileDir + "/.progargs/tool" + std::to_string(v) + ".pa").c_str()); rmdir((gFileDir + "/.progargs").c_str()); });
   }
   for (int v = 0; v < 8; ++v)
   {
      // read by the env-var scenarios; never changed once threads exist
      const std::string name = "TOOL" + std::to_string(v), val = "-i " + std::to_string(1000 + v) + " --tag env" + std::to_string(v);
      setenv(name.c_str(), val.c_str(), 1);
   }
   for (uint64_t idx = a.start; idx < a.start + a.count; ++idx)
   {
      out.curIdx = idx;
      vh::Rng r(vh::mix(a.seed, vh::mix(vh::hash_str("conc_argh"), idx)));   // same scenarios in both modes
      const unsigned T = THREADS[idx % 4];
      const int level = corrupt ? 3 : (int)((idx / 4) % 3);
      char d[96];
      snprintf(d, sizeof d, "threads T=%u level=%d iters=%u", T, level, iters);
      prog.set(idx, d);
      out.stat("cases");
      // scenarios: consecutive kinds and consecutive separators, so that the threads of a case differ
      std::vector<Worker> ws(T);
      const int k0 = (int)r.below(NKINDS), s0 = (int)r.below(7);
      const int kstep = 1 + (int)r.below(4) * 2;     // NKINDS = 16
      const bool envCase = r.chance(1, 4);
      const int envBase = (int)r.below(8);
      const bool fileCase = r.chance(1, 2), sameFile = r.chance(1, 2);
      // several threads print a usage at the same time; the handler asks the library-internal Groups singleton whether it is
      // evaluated by a group - every case starts without that object, so the threads race for its creation
      const bool usageCase = !envCase && r.chance(1, 3), endCase = r.chance(1, 2);
      const bool sameKindCase = !envCase && !usageCase && r.chance(1, 2);
      const int sameKind = (int)r.below(NKINDS);
      celma::prog_args::Groups::reset();
      uint64_t h = vh::hash_u64(T, vh::hash_u64(level));
      for (unsigned t = 0; t < T; ++t)
      {
         // the first thread pair always differs in the separator: even threads use separator
         // based kinds more often
         int kind = (k0 + (int)t * kstep) % NKINDS;
         if (t < 2 && r.chance(1, 2)) kind = (t == 0) ? K_VEC_INT : K_VEC_STR;
         if (envCase && t < 3) kind = fileCase ? K_ARGFILE : K_ENVVAR;
         if (usageCase && t < 4) kind = endCase ? K_ENDVALUES : K_USAGE;
         // several threads inside the same part of the library at the same time (a function-local static there shows only then)
         if (sameKindCase && t < 4) kind = sameKind;
         ws[t].sc = makeScenario(r, kind, s0 + (int)t);
         if (kind == K_ARGFILE && envCase)
         {
            // sameFile: all of them read the same file, otherwise neighbouring files
            ws[t].sc = makeScenario(r, kind, s0 + (int)t);
            Scenario c = ws[t].sc;
            c.variant = sameFile ? (envBase % 4) + (c.variant & 4) : (envBase + (int)t) % 8;
            Scenario n = makeScenario(r, kind, s0 + (int)t);
            c.argv = { "-s", c.words[0], "--arg-file", gFileDir + "/args" + std::to_string(c.variant % 4) + ".txt" };
            if (c.variant & 4) { std::swap(c.argv[0], c.argv[2]); std::swap(c.argv[1], c.argv[3]); }
            char b[64];
            snprintf(b, sizeof b, "arg-file variant=%d argv=", c.variant);
            c.descr = b;
            for (auto& x : c.argv) c.descr += " " + x;
            (void)n;
            ws[t].sc = c;
         }
         if (kind == K_ENVVAR && envCase)
         {
            // neighbouring threads read different variables
            ws[t].sc.variant = (envBase + (int)t) % 8;
            ws[t].sc = [&] { Scenario c = ws[t].sc; char b[64]; snprintf(b, sizeof b, "env-var variant=%d argv=", c.variant); c.descr = b; for (auto& x : c.argv) c.descr += " " + x; return c; }();
         }
         ws[t].seed = vh::mix(r.next(), rep);
         h = vh::hash_str(ws[t].sc.descr, h);
         out.stat(std::string("scenario_") + kindNames[kind]);
      }
      out.distinct(h);
      // sequential reference (hook inactive on the main thread)
      for (unsigned t = 0; t < T; ++t)
      {
         prog.descr((std::string("sequential ") + ws[t].sc.descr).c_str());
         ws[t].expected = runScenario(ws[t].sc);
         std::string again = runScenario(ws[t].sc);
         out.stat("sequential_runs", 2);
         if (again != ws[t].expected)
            out.stat("selfcheck_sequential_not_deterministic");
         // process-wide state that an earlier handler left behind shows already in the sequential run (it would hide from
         // the comparison "concurrent == alone"): for these kinds the result of running alone is known in advance
         if (ws[t].sc.kind == K_ENDVALUES)
         {
            std::string want = "ok | v=[";
            for (size_t i = 0; i < ws[t].sc.nums.size(); ++i) want += (i ? "\x1f" : "") + std::to_string(ws[t].sc.nums[i]);
            want += "] free=" + ws[t].sc.words[0] + " | out= | err=";
            out.stat("sequential_results_compared_with_the_known_result");
            if (ws[t].expected != want)
               out.viol(std::string("sequential-result|") + kindFamily[ws[t].sc.kind], std::string(d) + ": scenario {" + ws[t].sc.descr +
                        "} run alone (after other handlers were used in this process) gave {" + oneLine(ws[t].expected, 400) + "}, expected {" + oneLine(want, 300) + "}");
         }
         if (ws[t].sc.kind == K_ENVVAR)
         {
            const std::string want = "ok | i=" + std::to_string(1000 + ws[t].sc.variant) + " s=" + ws[t].sc.words[0] + " tag=env" + std::to_string(ws[t].sc.variant) + " pa=pa" + std::to_string(ws[t].sc.variant) + " | out= | err=";
            out.stat("sequential_results_compared_with_the_known_result");
            if (ws[t].expected != want)
               out.viol(std::string("sequential-result|") + kindFamily[ws[t].sc.kind], std::string(d) + ": scenario {" + ws[t].sc.descr +
                        "} run alone (after other handlers were used in this process) gave {" + oneLine(ws[t].expected, 400) + "}, expected {" + oneLine(want, 300) + "}");
         }
         if (ws[t].expected.compare(0, 2, "ok") == 0) out.stat("scenarios_expected_ok");
         else out.stat("scenarios_expected_throw");
         if (verbose) out.sample("T" + std::to_string(t) + ": " + ws[t].sc.descr + "  ->  " + oneLine(ws[t].expected, 900));
      }
      prog.descr(d);
      // the sequential runs above created the library-internal Groups singleton: the threads start without it
      celma::prog_args::Groups::reset();
      gArrived.store(0);
      gGo.store(0);
      std::vector<std::thread> th;
      for (unsigned t = 0; t < T; ++t) th.emplace_back(workerMain, &ws[t], iters, level);
      while (gArrived.load(std::memory_order_acquire) < T) sched_yield();
      gGo.store(1, std::memory_order_release);
      for (auto& t : th) t.join();
      for (unsigned t = 0; t < T; ++t)
      {
         out.stat("evaluations", ws[t].evals);
         char tk[40];
         snprintf(tk, sizeof tk, "evaluations_T%u", T);
         out.stat(tk, ws[t].evals);
         if (ws[t].mismatches)
         {
            out.stat("mismatches", ws[t].mismatches);
            out.stat(std::string("mismatches_") + kindNames[ws[t].sc.kind], ws[t].mismatches);
            out.viol(std::string("sequential-equivalence|") + kindFamily[ws[t].sc.kind],
                     std::string(d) + ": thread " + std::to_string(t) + " scenario {" + ws[t].sc.descr + "} gave " +
                     std::to_string(ws[t].mismatches) + " of " + std::to_string(ws[t].evals) + " times a result different from the single-threaded run; alone: {" +
                     oneLine(ws[t].expected) + "} concurrently: {" + oneLine(ws[t].firstBad[0]) + "}");
         }
      }
      if (out.wantSample())
         out.sample(std::string(d) + " t0={" + ws[0].sc.descr + " -> " + oneLine(ws[0].expected, 160) + "} t1={" + ws[1].sc.descr + " -> " + oneLine(ws[1].expected, 160) + "}");
   }
   out.stat("hook_hits_tokenizer.conv_char2string", gHookHits.load());
   out.stat("hook_window_overlaps", gOverlaps.load());
   static const char* const dn[5] = { "none", "yield", "1us", "50us", "1ms" };
   for (int i = 0; i < 5; ++i)
      if (gDelayCount[i].load()) out.stat(std::string("hook_delay_") + dn[i], gDelayCount[i].load());
   out.finish(a);
   return 0;
}
