// C20 - concurrency helpers keep their contract under every schedule.
//
// Monitors celma::common::Singleton<T> and celma::common::ManagedThread (both header-only).
// Built in the `tsan` flavour (ThreadSanitizer decides "no data race", reports are counted
// from the TSan log files by lib/tsan.py) and in the `plain` flavour (behavioural predicates
// only, timing closer to production).
//
// modes
//   singleton  case = BATCH rounds.  T = {2,4,8,16}[idx % 4] persistent threads, perturbation
//              level = (idx / 4) % 3, payload type = (idx / 12) % 2.  One round: the main thread
//              calls reset() (single-threaded, all workers parked), opens a spin barrier, every
//              worker performs its FIRST instance() call of the round, records the address it
//              got and reads the payload; closing barrier; the main thread evaluates
//                 constructions == 1, all addresses equal (and equal to a later instance()),
//                 every thread saw a completely constructed object.
//   mthread    case = BATCH managed-thread lifetimes, lifetime kind = idx % 5
//              (blocking / empty / short / observed by a second thread / detached while running), perturbation level = (idx / 5) % 3.
//              blocking: function sets `started`, waits for `release`, sets `finished`; the
//              observer waits for `started` (it has OBSERVED that the function runs), samples
//              isActive() K times -> all must be true; sets `release`, join() -> isActive()
//              must be false.  empty / short: only "false after join" is judged.
//
// Hook (celma_verif_point, see src/celma/common/detail/verif_hook.hpp): seeded delays
// (none, yield, 1 us, 50 us, 1 ms) and an event log with a logical clock.  Everything the hook
// shares between threads is accessed with memory_order_relaxed so that the hook itself adds
// no happens-before edge that could hide a race from ThreadSanitizer.
#include "vh.hpp"

#include <atomic>
#include <sched.h>
#include <string>
#include <thread>
#include <time.h>
#include <vector>

#include "celma/common/managed_thread.hpp"
#include "celma/common/singleton.hpp"

namespace {

// ------------------------------------------------------------------ hook machinery

enum Point { P_BEFORE_LOCK = 0, P_CONSTRUCTED, P_MT_BEFORE_INIT, P_MT_STARTED, P_OTHER, NPOINTS };
const char* const pointNames[NPOINTS] = { "singleton.instance.before_lock", "singleton.instance.constructed",
                                          "managed_thread.ctor.before_flag_init", "managed_thread.ctor.thread_started",
                                          "other" };

std::atomic<uint64_t> gClock{ 1 };   // logical clock, relaxed on purpose (see header comment)
std::atomic<uint64_t> gDelayCount[5];   // none, yield, 1us, 50us, 1ms
std::atomic<uint64_t> gPointHits[NPOINTS];

inline uint64_t tick() { return gClock.fetch_add(1, std::memory_order_relaxed); }

struct ThreadCtx
{
   bool active = false;          // hook enabled for this thread
   int level = 0;                // 0: log only, 1: light, 2: heavy perturbation
   vh::Rng rng;
   uint64_t stamp[NPOINTS] = { 0 };   // clock of the last hit per point
   unsigned hits[NPOINTS] = { 0 };
   int lastDelay = 0;
   int delayAt[NPOINTS] = { 0 };    // delay class drawn at the last hit per point
   void arm(uint64_t seed, int lvl)
   {
      active = true;
      level = lvl;
      rng = vh::Rng(seed);
      clear();
   }
   void clear()
   {
      for (int i = 0; i < NPOINTS; ++i) { stamp[i] = 0; hits[i] = 0; delayAt[i] = 0; }
   }
};
thread_local ThreadCtx tctx;

void sleepNs(long ns)
{
   struct timespec ts = { 0, ns };
   nanosleep(&ts, nullptr);
}

/// delay classes: 0 none, 1 yield, 2 1us, 3 50us, 4 1ms
int drawDelay(vh::Rng& r, int level)
{
   if (level <= 0) return 0;
   unsigned x = (unsigned)r.below(100);
   if (level == 1) return x < 45 ? 0 : x < 75 ? 1 : x < 92 ? 2 : 3;
   return x < 25 ? 0 : x < 40 ? 1 : x < 65 ? 2 : x < 93 ? 3 : 4;
}

void doDelay(int d)
{
   gDelayCount[d].fetch_add(1, std::memory_order_relaxed);
   switch (d)
   {
   case 1: sched_yield(); break;
   case 2: sleepNs(1000); break;
   case 3: sleepNs(50000); break;
   case 4: sleepNs(1000000); break;
   default: break;
   }
}

}   // namespace

extern "C" void celma_verif_point(const char* name)
{
   int p = P_OTHER;
   for (int i = 0; i < P_OTHER; ++i)
      if (strcmp(name, pointNames[i]) == 0) { p = i; break; }
   gPointHits[p].fetch_add(1, std::memory_order_relaxed);
   ThreadCtx& c = tctx;
   if (!c.active) return;
   c.hits[p]++;
   c.stamp[p] = tick();
   int d = drawDelay(c.rng, c.level);
   c.lastDelay = d;
   c.delayAt[p] = d;
   doDelay(d);
}

namespace {

// ------------------------------------------------------------------ spin barrier

inline void cpuRelax()
{
#if defined(__x86_64__) || defined(__i386__)
   __builtin_ia32_pause();
#endif
}

struct SpinBarrier
{
   std::atomic<unsigned> count{ 0 };
   std::atomic<unsigned> gen{ 0 };
   unsigned n = 1;
   void wait()
   {
      unsigned g = gen.load(std::memory_order_acquire);
      if (count.fetch_add(1, std::memory_order_acq_rel) + 1 == n)
      {
         count.store(0, std::memory_order_relaxed);
         gen.store(g + 1, std::memory_order_release);
         return;
      }
      unsigned spins = 0;
      while (gen.load(std::memory_order_acquire) == g)
      {
         if (++spins < 300) cpuRelax();
         else sched_yield();
      }
   }
};

// ------------------------------------------------------------------ singleton payloads

constexpr uint64_t MAGIC = 0x600dc0de600dc0deULL;

struct Counters
{
   std::atomic<unsigned> ctor{ 0 }, dtor{ 0 };
};

/// payload constructed with an argument (the id of the thread whose call constructs it)
class PayloadA : public celma::common::Singleton<PayloadA>
{
   friend class celma::common::Singleton<PayloadA>;
public:
   static Counters cnt;
   uint64_t body[6];
   int creator;
   uint64_t magic;
   ~PayloadA() override
   {
      magic = 0;
      cnt.dtor.fetch_add(1, std::memory_order_relaxed);
   }
protected:
   explicit PayloadA(int who)
   {
      cnt.ctor.fetch_add(1, std::memory_order_relaxed);
      creator = who;
      for (int i = 0; i < 6; ++i) body[i] = MAGIC + i + 1;
      magic = MAGIC;
   }
};
Counters PayloadA::cnt;

/// default-constructed payload, instance() without arguments
class PayloadB : public celma::common::Singleton<PayloadB>
{
   friend class celma::common::Singleton<PayloadB>;
public:
   static Counters cnt;
   uint64_t body[6];
   int creator;
   uint64_t magic;
   ~PayloadB() override
   {
      magic = 0;
      cnt.dtor.fetch_add(1, std::memory_order_relaxed);
   }
protected:
   PayloadB()
   {
      cnt.ctor.fetch_add(1, std::memory_order_relaxed);
      creator = -1;
      for (int i = 0; i < 6; ++i) body[i] = MAGIC + i + 1;
      magic = MAGIC;
   }
};
Counters PayloadB::cnt;

template <class P> P& firstAccess(int who);
/// the racing threads use different call forms (lvalue / rvalue / const lvalue argument): instance() is a member template over
/// the argument types, so every form is a separate instantiation - anything that is static per instantiation is not shared
template <> PayloadA& firstAccess<PayloadA>(int who)
{
   switch (who % 3)
   {
   case 0: return PayloadA::instance(who);
   case 1: return PayloadA::instance(int(who));
   default: { const int cw = who; return PayloadA::instance(cw); }
   }
}
template <> PayloadB& firstAccess<PayloadB>(int) { return PayloadB::instance(); }

struct Slot   // written by exactly one worker, read by the main thread after the closing barrier
{
   const void* addr = nullptr;
   bool complete = false;      // payload looked completely constructed
   int creator = -2;
   uint64_t tEnter = 0, tExit = 0, tBeforeLock = 0, tConstructed = 0;
   unsigned hitsBeforeLock = 0, hitsConstructed = 0;
   char pad[64];
};

struct RoundCtl
{
   SpinBarrier open, close;
   std::atomic<int> stop{ 0 };
   std::vector<Slot> slots;
};

template <class P> void singletonWorker(RoundCtl* ctl, int me, uint64_t seed, int level)
{
   tctx.arm(seed, level);
   for (;;)
   {
      ctl->open.wait();
      if (ctl->stop.load(std::memory_order_acquire)) break;
      tctx.clear();
      Slot& s = ctl->slots[me];
      s.tEnter = tick();
      P& obj = firstAccess<P>(me);            // the first access of this round
      s.tExit = tick();
      s.addr = &obj;
      bool ok = obj.magic == MAGIC;
      for (int i = 0; i < 6; ++i) ok = ok && obj.body[i] == MAGIC + i + 1;
      s.complete = ok;
      s.creator = obj.creator;
      s.tBeforeLock = tctx.stamp[P_BEFORE_LOCK];
      s.tConstructed = tctx.stamp[P_CONSTRUCTED];
      s.hitsBeforeLock = tctx.hits[P_BEFORE_LOCK];
      s.hitsConstructed = tctx.hits[P_CONSTRUCTED];
      ctl->close.wait();
   }
   tctx.active = false;
}

const unsigned THREADS[4] = { 2, 4, 8, 16 };

template <class P>
void singletonCase(const vh::Args& a, vh::Out& out, vh::Progress& prog, uint64_t idx, unsigned T, int level,
                   unsigned rounds, const char* pname)
{
   vh::Rng r(vh::mix(a.seed, vh::mix(vh::hash_str(a.mode), idx)));
   RoundCtl ctl;
   ctl.open.n = ctl.close.n = T + 1;
   ctl.slots.resize(T);
   std::vector<std::thread> th;
   for (unsigned t = 0; t < T; ++t) th.emplace_back(singletonWorker<P>, &ctl, (int)t, r.next(), level);
   char d[160];
   for (unsigned rd = 0; rd < rounds; ++rd)
   {
      snprintf(d, sizeof d, "singleton payload=%s T=%u level=%d round=%u", pname, T, level, rd);
      prog.descr(d);
      P::reset();                                   // single-threaded: all workers are parked
      unsigned c0 = P::cnt.ctor.load(), d0 = P::cnt.dtor.load();
      if (c0 != d0)
         out.viol("singleton|reset-keeps-object", std::string(d) + ": after reset() constructions=" + std::to_string(c0) +
                  " destructions=" + std::to_string(d0));
      ctl.open.wait();
      ctl.close.wait();
      unsigned made = P::cnt.ctor.load() - c0;
      out.stat("singleton_rounds");
      out.stat("singleton_first_accesses", T);
      char tk[40];
      snprintf(tk, sizeof tk, "singleton_rounds_T%u", T);
      out.stat(tk);
      if (made != 1)
         out.viol("singleton|constructions", std::string(d) + ": " + std::to_string(made) +
                  " objects constructed for one round of simultaneous first instance() calls");
      const void* first = ctl.slots[0].addr;
      bool same = true, complete = true;
      unsigned slow = 0, inWindow = 0;
      int winner = -1;
      uint64_t tCons = 0, tWinExit = 0;
      for (unsigned t = 0; t < T; ++t)
      {
         const Slot& s = ctl.slots[t];
         same = same && s.addr == first;
         complete = complete && s.complete;
         if (s.hitsBeforeLock) ++slow;
         if (s.hitsConstructed) { winner = (int)t; tCons = s.tConstructed; tWinExit = s.tExit; }
      }
      const void* now = &firstAccess<P>(-7);        // object exists: arguments are ignored
      if (!same || now != first)
      {
         std::string l = std::string(d) + ": addresses";
         for (unsigned t = 0; t < T; ++t) { char b[32]; snprintf(b, sizeof b, " t%u=%p", t, ctl.slots[t].addr); l += b; }
         char b[40]; snprintf(b, sizeof b, " later=%p", now); l += b;
         out.viol("singleton|address", l);
      }
      if (!complete)
         out.viol("singleton|incomplete-object", std::string(d) + ": a thread got a reference to an object whose constructor had not finished (or that was destroyed)");
      if (P::cnt.ctor.load() - c0 != made)
         out.viol("singleton|constructions", std::string(d) + ": instance() on an existing object constructed another one");
      // --- evidence: which schedules were seen (only meaningful with the hooks in place)
      if (winner >= 0)
      {
         for (unsigned t = 0; t < T; ++t)
         {
            const Slot& s = ctl.slots[t];
            if ((int)t != winner && s.tEnter < tWinExit && s.tExit > tCons) ++inWindow;
         }
         out.stat("singleton_hook_rounds");
         if (slow == T) out.stat("singleton_rounds_all_threads_slow_path");
         if (slow > 1) out.stat("singleton_rounds_several_threads_slow_path");
         if (inWindow) out.stat("singleton_rounds_access_during_construction_window");
         if (winner != 0) out.stat("singleton_rounds_winner_not_thread0");
         if (std::is_same<P, PayloadA>::value && ctl.slots[0].creator != winner)
            out.viol("singleton|creator", std::string(d) + ": object constructed with the arguments of another call than the constructing one");
      }
      uint64_t sig = vh::hash_u64(T, vh::hash_u64(level, vh::hash_u64(winner + 1, vh::hash_u64(slow, vh::hash_u64(inWindow)))));
      out.distinct(vh::hash_u64(std::is_same<P, PayloadA>::value, sig));
      if (out.wantSample() && rd == rounds / 2)
      {
         char b[200];
         snprintf(b, sizeof b, "%s constructions=%u winner=t%d slow_path_threads=%u accesses_in_construction_window=%u",
                  d, made, winner, slow, inWindow);
         out.sample(b);
      }
   }
   ctl.stop.store(1, std::memory_order_release);
   ctl.open.wait();
   for (auto& t : th) t.join();
   P::reset();
}

// ------------------------------------------------------------------ managed thread

struct MtShared
{
   std::atomic<int> started{ 0 }, release{ 0 }, finished{ 0 };
   std::atomic<uint64_t> tFunc{ 0 };
   std::atomic<int> work{ 0 };
};

void waitFlag(const std::atomic<int>& f)
{
   unsigned spins = 0;
   while (!f.load(std::memory_order_acquire))
   {
      if (++spins < 300) cpuRelax();
      else sched_yield();
   }
}

void blockingFunc(MtShared* s)
{
   s->tFunc.store(tick(), std::memory_order_relaxed);
   s->started.store(1, std::memory_order_release);
   waitFlag(s->release);
   s->finished.store(1, std::memory_order_release);
}

void shortFunc(MtShared* s, int n)
{
   s->tFunc.store(tick(), std::memory_order_relaxed);
   int w = 0;
   for (int i = 0; i < n; ++i) w += i * 7;
   s->work.store(w, std::memory_order_relaxed);
   s->finished.store(1, std::memory_order_release);
}

void mthreadCase(const vh::Args& a, vh::Out& out, vh::Progress& prog, uint64_t idx, unsigned lifetimes)
{
   using celma::common::ManagedThread;
   vh::Rng r(vh::mix(a.seed, vh::mix(vh::hash_str(a.mode), idx)));
   const int kind = (int)(idx % 5);
   const int level = (int)((idx / 5) % 3);
   const unsigned K = (unsigned)a.getu("samples", 8);
   static const char* const kinds[5] = { "blocking", "empty", "short", "observed-by-other-thread", "detached-while-running" };
   tctx.arm(r.next(), level);
   char d[160];
   for (unsigned l = 0; l < lifetimes; ++l)
   {
      snprintf(d, sizeof d, "mthread kind=%s level=%d lifetime=%u", kinds[kind], level, l);
      prog.descr(d);
      tctx.clear();
      MtShared sh;
      out.stat("mthread_lifetimes");
      out.stat(std::string("mthread_lifetimes_") + kinds[kind]);
      if (kind == 0)
      {
         unsigned inactive = 0;
         bool afterJoin;
         {
            ManagedThread mt(blockingFunc, &sh);
            // queries before the function is known to run: either answer is right, they must not influence later answers
            for (unsigned k = 0, ke = (unsigned)r.below(3); k < ke; ++k) { if (mt.isActive()) out.stat("mthread_unjudged_samples_active"); else out.stat("mthread_unjudged_early_samples_inactive"); }
            waitFlag(sh.started);              // from here on the function is known to run
            for (unsigned k = 0; k < K; ++k)
            {
               if (!mt.isActive()) ++inactive;
               if (k == 1) sched_yield();
               else if (k == 3) sleepNs(1000);
               else cpuRelax();
            }
            out.stat("mthread_active_samples", K);
            if (sh.finished.load(std::memory_order_acquire))
               out.viol("mthread|harness", std::string(d) + ": function finished without release (harness error)");
            sh.release.store(1, std::memory_order_release);
            mt.join();
            afterJoin = mt.isActive();
         }
         if (inactive)
            out.viol("mthread|inactive-while-running", std::string(d) + ": isActive() returned false " + std::to_string(inactive) +
                     " of " + std::to_string(K) + " times after the observer had seen the thread function running and before it was released" +
                     " (hook delay class before flag initialisation: " + std::to_string(tctx.delayAt[P_MT_BEFORE_INIT]) + ")");
         if (afterJoin)
            out.viol("mthread|active-after-join", std::string(d) + ": isActive() returned true after the function returned and join()");
         if (!sh.finished.load()) out.viol("mthread|harness", std::string(d) + ": join() returned before the function finished");
      }
      else if (kind == 3)
      {
         // a second thread knows where the object is being constructed and queries it as soon as it has seen the function
         // running - possibly before the constructor has returned (hook delay behind the thread start)
         alignas(ManagedThread) static unsigned char storage[sizeof(ManagedThread)];
         ManagedThread* obj = reinterpret_cast<ManagedThread*>(storage);
         std::atomic<unsigned> inactive{ 0 };
         std::atomic<int> obsDone{ 0 }, ctorDone{ 0 }, duringCtor{ 0 };
         std::thread observer([&]() {
            waitFlag(sh.started);
            for (unsigned k = 0; k < K; ++k)
            {
               if (!ctorDone.load(std::memory_order_acquire)) duringCtor.fetch_add(1, std::memory_order_relaxed);
               if (!obj->isActive()) inactive.fetch_add(1, std::memory_order_relaxed);
               if (k == 2) sched_yield();
               else cpuRelax();
            }
            obsDone.store(1, std::memory_order_release);
         });
         new (storage) ManagedThread(blockingFunc, &sh);
         ctorDone.store(1, std::memory_order_release);
         waitFlag(obsDone);
         out.stat("mthread_active_samples", K);
         if (duringCtor.load()) out.stat("mthread_samples_before_constructor_returned", duringCtor.load());
         sh.release.store(1, std::memory_order_release);
         obj->join();
         const bool afterJoin = obj->isActive();
         observer.join();
         obj->~ManagedThread();
         if (inactive.load())
            out.viol("mthread|inactive-while-running", std::string(d) + ": isActive() returned false " + std::to_string(inactive.load()) + " of " +
                     std::to_string(K) + " times to a second thread that had seen the thread function running (" + std::to_string(duringCtor.load()) +
                     " of the queries before the constructor returned)");
         if (afterJoin)
            out.viol("mthread|active-after-join", std::string(d) + ": isActive() returned true after the function returned and join()");
      }
      else if (kind == 4)
      {
         // the owner detaches the thread while the function runs: it is still running, so still active
         unsigned inactive = 0;
         bool stillActive = true;
         {
            ManagedThread mt(blockingFunc, &sh);
            waitFlag(sh.started);
            if (!mt.isActive()) ++inactive;
            mt.detach();
            for (unsigned k = 0; k < K; ++k)
            {
               if (!mt.isActive()) ++inactive;
               if (k == 1) sched_yield();
               else cpuRelax();
            }
            out.stat("mthread_active_samples", K + 1);
            out.stat("mthread_samples_after_detach", K);
            sh.release.store(1, std::memory_order_release);
            waitFlag(sh.finished);
            // the thread clears the flag after the function returned; the object must outlive that store
            for (unsigned w = 0; w < 200000 && (stillActive = mt.isActive()); ++w) { if (w < 1000) cpuRelax(); else sleepNs(10000); }
         }
         if (inactive)
            out.viol("mthread|inactive-while-running", std::string(d) + ": isActive() returned false " + std::to_string(inactive) + " of " +
                     std::to_string(K + 1) + " times while the function of the (detached) thread was known to run");
         if (stillActive) out.stat("mthread_unjudged_still_active_2s_after_the_function_returned");
      }
      else
      {
         const bool explicitJoin = r.chance(2, 3);
         bool afterJoin = false;
         unsigned seenActive = 0;
         {
            if (kind == 1)
            {
               ManagedThread mt([]() {});
               for (unsigned k = 0; k < 3; ++k) if (mt.isActive()) ++seenActive;   // not judged
               if (explicitJoin) { mt.join(); afterJoin = mt.isActive(); }
            }
            else
            {
               ManagedThread mt(shortFunc, &sh, (int)r.below(200));
               for (unsigned k = 0; k < 3; ++k) if (mt.isActive()) ++seenActive;   // not judged
               if (explicitJoin) { mt.join(); afterJoin = mt.isActive(); }
            }
            // otherwise: the destructor joins
         }
         if (explicitJoin) out.stat("mthread_explicit_join"); else out.stat("mthread_destructor_join");
         if (seenActive) out.stat("mthread_unjudged_samples_active", seenActive);
         if (afterJoin)
            out.viol("mthread|active-after-join", std::string(d) + ": isActive() returned true after the function returned and join()");
         if (kind == 2 && !sh.finished.load()) out.viol("mthread|harness", std::string(d) + ": thread function did not run before join returned");
      }
      // evidence: order of "function entered (flag already set)" and "constructor reached the flag's initialisation"
      uint64_t tHook = tctx.stamp[P_MT_BEFORE_INIT], tFunc = sh.tFunc.load(std::memory_order_relaxed);
      int order = 0;
      if (tHook && tFunc) order = tFunc < tHook ? 1 : 2;
      if (order == 1) out.stat("mthread_order_function_entered_before_flag_init_point");
      if (order == 2) out.stat("mthread_order_flag_init_point_before_function_entered");
      const int dInit = tHook ? tctx.delayAt[P_MT_BEFORE_INIT] : 9, dStarted = tctx.hits[P_MT_STARTED] ? tctx.delayAt[P_MT_STARTED] : 9;
      if (tHook) out.stat(std::string("mthread_delay_before_flag_init_class_") + std::to_string(dInit));
      if (tctx.hits[P_MT_STARTED]) out.stat(std::string("mthread_delay_after_thread_start_class_") + std::to_string(dStarted));
      out.distinct(vh::hash_u64(kind, vh::hash_u64(level, vh::hash_u64(order, vh::hash_u64(dInit, vh::hash_u64(dStarted))))));
      if (out.wantSample() && l == lifetimes / 2)
      {
         char b[220];
         snprintf(b, sizeof b, "%s hook_delay_classes=%d/%d order=%s", d, dInit, dStarted,
                  order == 1 ? "function-entered<flag-init-point" : order == 2 ? "flag-init-point<function-entered" : "n/a");
         out.sample(b);
      }
   }
   tctx.active = false;
}

}   // namespace

int main(int argc, char** argv)
{
   vh::Args a = vh::parse_args(argc, argv);
   vh::Out out;
   vh::Progress prog;
   prog.open(a.progress);
   if (a.getu("verbose", 0)) out.maxSamples = 1000;
   const unsigned batch = (unsigned)a.getu("batch", 25);
   if (a.mode != "singleton" && a.mode != "mthread")
   {
      fprintf(stderr, "unknown mode %s\n", a.mode.c_str());
      return 3;
   }
   for (uint64_t idx = a.start; idx < a.start + a.count; ++idx)
   {
      out.curIdx = idx;
      out.stat("cases");
      if (a.mode == "singleton")
      {
         const unsigned T = THREADS[idx % 4];
         const int level = (int)((idx / 4) % 3);
         const bool pa = ((idx / 12) % 2) == 0;
         prog.set(idx, "singleton");
         if (pa) singletonCase<PayloadA>(a, out, prog, idx, T, level, batch, "A(int)");
         else singletonCase<PayloadB>(a, out, prog, idx, T, level, batch, "B()");
      }
      else
      {
         prog.set(idx, "mthread");
         mthreadCase(a, out, prog, idx, batch);
      }
   }
   for (int i = 0; i < NPOINTS; ++i)
      if (gPointHits[i].load()) out.stat(std::string("hook_hits_") + pointNames[i], gPointHits[i].load());
   static const char* const dn[5] = { "none", "yield", "1us", "50us", "1ms" };
   for (int i = 0; i < 5; ++i)
      if (gDelayCount[i].load()) out.stat(std::string("hook_delay_") + dn[i], gDelayCount[i].load());
   out.finish(a);
   return 0;
}
