// C10 / C11 - celma::common::FixedString<L> (header only).
//
//   C10  fixed-capacity string never touches memory outside itself and stays well-formed
//        modes c10exh (bounded exhaustive, L <= 4, alphabet {a,b}, argument grid out of domain),
//              c10hist (random histories over all capacities)
//   C11  fixed-capacity string equals std::string cut off at the capacity
//        modes c11exh (L <= 4, contents over {a,b,c}, every in-domain argument),
//              c11hist (random histories, random printable contents, all capacities),
//              c11eq (equality / inequality / compare over all pairs of contents, L <= 3, S != L too)
//
// Executor: fixed_string_rig.hpp (SessionImpl<L>), instantiated in fixed_string_g01..g10.cpp.
#include "fixed_string_rig.hpp"

using namespace fsv;

static vh::Out out;
static vh::Progress prog;
static Ctx ctx;

static const size_t CAPS[] = { 1, 2, 3, 4, 5, 7, 8, 15, 16, 31, 254, 255, 256, 257, 1000, 65534, 65535, 65536, 65537 };
static const size_t NCAPS = sizeof CAPS / sizeof CAPS[0];

static Session* make_session(size_t L)
{
   typedef Session* (*Maker)(size_t, Ctx&);
   static const Maker MAKERS[] = { make_session_g01, make_session_g02, make_session_g03, make_session_g04, make_session_g05,
                                   make_session_g06, make_session_g07, make_session_g08, make_session_g09, make_session_g10 };
   Session* s = nullptr;
   for (Maker m : MAKERS) if (!s) s = m(L, ctx);
   if (!s) { fprintf(stderr, "no instantiation for capacity %zu\n", L); exit(3); }
   return s;
}

// ------------------------------------------------------------------ operation table

static std::vector<OpDef> OPS;

static void add(const std::string& family, const std::string& variant, Fam f, Sk sk, int sub, std::initializer_list<Role> roles, unsigned flags)
{
   OpDef d;
   d.family = family;
   d.name = variant.empty() ? family : family + "." + variant;
   d.fam = f;
   d.sk = sk;
   d.sub = uint8_t(sub);
   d.nargs = uint8_t(roles.size());
   unsigned i = 0;
   for (Role r : roles) d.role[i++] = r;
   for (; i < 4; ++i) d.role[i] = R_NONE;
   d.flags = flags;
   d.index = unsigned(OPS.size());
   OPS.push_back(d);
}

static const char* skName(Sk sk)
{
   switch (sk)
   {
   case SK_CSTR: return "cstr";
   case SK_STRING: return "string";
   case SK_FS0: return "fs";
   case SK_FS1: return "fs_smaller";
   case SK_FS2: return "fs_bigger";
   default: return "";
   }
}

static void addKinds(const std::string& family, Fam f, std::initializer_list<Sk> kinds, std::initializer_list<Role> roles, unsigned flags, int sub = 0)
{
   for (Sk k : kinds) add(family, skName(k), f, k, sub, roles, flags | OF_SRC);
}

static void build_ops()
{
   const std::initializer_list<Sk> ALL = { SK_CSTR, SK_STRING, SK_FS0, SK_FS1, SK_FS2 };
   const std::initializer_list<Sk> OBJ = { SK_STRING, SK_FS0, SK_FS1, SK_FS2 };
   const std::initializer_list<Sk> FSK = { SK_FS0, SK_FS1, SK_FS2 };
   const std::initializer_list<Sk> SAME = { SK_CSTR, SK_STRING, SK_FS0 };

   add("observe", "", F_OBSERVE, SK_NONE, 0, {}, 0);
   add("at", "", F_AT, SK_NONE, 0, { R_POS }, 0);
   add("at_const", "", F_AT_CONST, SK_NONE, 0, { R_POS }, 0);
   add("index", "", F_INDEX, SK_NONE, 0, { R_POS }, 0);
   add("front_back", "", F_FRONT_BACK, SK_NONE, 0, {}, 0);
   static const char* const SETTERS[] = { "front", "back", "at", "index", "data", "iterator", "reverse_iterator" };
   for (int i = 0; i < 7; ++i) add("write_through_reference", SETTERS[i], F_SET_CHAR, SK_NONE, i, { R_POS }, OF_CH | OF_MUT);

   add("ctor_default", "", F_CTOR_DEFAULT, SK_NONE, 0, {}, 0);
   addKinds("ctor", F_CTOR, ALL, {}, 0);
   add("ctor_move", "", F_CTOR_MOVE, SK_NONE, 0, {}, 0);
   addKinds("assign", F_ASSIGN, ALL, {}, OF_MUT);
   addKinds("op_assign", F_OPASSIGN, ALL, {}, OF_MUT);
   add("clear", "", F_CLEAR, SK_NONE, 0, {}, OF_MUT);

   add("insert_idx_count_ch", "", F_INSERT_CNT_CH, SK_NONE, 0, { R_POS, R_REP }, OF_CH | OF_MUT);
   add("insert_idx_cstr_count", "", F_INSERT_CSTR_CNT, SK_CSTR, 0, { R_POS, R_SARR }, OF_SRC | OF_MUT);
   addKinds("insert_idx_str", F_INSERT, ALL, { R_POS }, OF_MUT);
   addKinds("insert_idx_str_part", F_INSERT_PART, OBJ, { R_POS, R_SPOS, R_SCNT }, OF_MUT);
   addKinds("insert_idx_str_part_defcount", F_INSERT_PART_D, OBJ, { R_POS, R_SPOS }, OF_MUT);
   add("insert_it_ch", "", F_INSERT_IT_CH, SK_NONE, 0, { R_IT }, OF_CH | OF_MUT);
   add("insert_it_count_ch", "", F_INSERT_IT_CNT_CH, SK_NONE, 0, { R_IT, R_REP }, OF_CH | OF_MUT);
   add("insert_it_ilist", "", F_INSERT_IT_ILIST, SK_NONE, 0, { R_IT }, OF_SRC | OF_MUT);

   add("erase_idx_count", "", F_ERASE, SK_NONE, 0, { R_POS, R_CNT }, OF_MUT);
   add("erase_all", "", F_ERASE_D0, SK_NONE, 0, {}, OF_MUT);
   add("erase_idx", "", F_ERASE_D1, SK_NONE, 0, { R_POS }, OF_MUT);
   add("erase_it", "", F_ERASE_IT, SK_NONE, 0, { R_IT }, OF_MUT);
   add("erase_it_it", "", F_ERASE_IT_IT, SK_NONE, 0, { R_IT, R_IT }, OF_MUT);
   add("push_back", "", F_PUSH_BACK, SK_NONE, 0, {}, OF_CH | OF_MUT);
   add("pop_back", "", F_POP_BACK, SK_NONE, 0, {}, OF_MUT);

   add("append_count_ch", "", F_APPEND_CNT_CH, SK_NONE, 0, { R_REP }, OF_CH | OF_MUT);
   addKinds("append_str", F_APPEND, ALL, {}, OF_MUT);
   addKinds("append_str_part", F_APPEND_PART, OBJ, { R_SPOS, R_SCNT }, OF_MUT);
   addKinds("append_str_part_defcount", F_APPEND_PART_D, OBJ, { R_SPOS }, OF_MUT);
   add("append_cstr_count", "", F_APPEND_CSTR_CNT, SK_CSTR, 0, { R_SCNT }, OF_SRC | OF_MUT);
   add("append_it_it", "", F_APPEND_IT_IT, SK_NONE, 0, { R_SIT, R_SIT }, OF_SRC | OF_MUT);
   static const char* const FORMATS[] = { "s", "d_s", "width_d", "s_s", "fail_lc", "fail_ls" };
   for (int i = 0; i < 6; ++i) add("sprintf", FORMATS[i], F_SPRINTF, SK_NONE, i, { R_ANY, R_ANY }, OF_SRC | OF_MUT);
   addKinds("plus_assign_str", F_PLUSEQ, ALL, {}, OF_MUT);
   add("plus_assign_ch", "", F_PLUSEQ_CH, SK_NONE, 0, {}, OF_CH | OF_MUT);

   addKinds("compare_str", F_COMPARE, ALL, {}, 0);
   addKinds("compare_part_str", F_COMPARE_P, ALL, { R_POS, R_CNT }, 0);
   addKinds("compare_part_part", F_COMPARE_PP, OBJ, { R_POS, R_CNT, R_SPOS, R_SCNT }, 0);
   add("compare_part_cstr_count", "", F_COMPARE_P_CSTR_CNT, SK_CSTR, 0, { R_POS, R_CNT, R_SCNT }, OF_SRC);
   addKinds("starts_with_str", F_STARTS, ALL, {}, 0);
   add("starts_with_ch", "", F_STARTS_CH, SK_NONE, 0, {}, OF_CH);
   addKinds("ends_with_str", F_ENDS, ALL, {}, 0);
   add("ends_with_ch", "", F_ENDS_CH, SK_NONE, 0, {}, OF_CH);
   addKinds("contains_str", F_CONTAINS, ALL, {}, 0);
   add("contains_ch", "", F_CONTAINS_CH, SK_NONE, 0, {}, OF_CH);

   addKinds("replace_pos_count_str", F_REPLACE, ALL, { R_POS, R_CNT }, OF_MUT);
   addKinds("replace_part_part", F_REPLACE_PP, OBJ, { R_POS, R_CNT, R_SPOS, R_SCNT }, OF_MUT);
   addKinds("replace_part_part_defcount", F_REPLACE_PP_D, OBJ, { R_POS, R_CNT, R_SPOS }, OF_MUT);
   add("replace_pos_count_cstr_count", "", F_REPLACE_CSTR_CNT, SK_CSTR, 0, { R_POS, R_CNT, R_SCNT }, OF_SRC | OF_MUT);
   add("replace_pos_count_count_ch", "", F_REPLACE_CNT_CH, SK_NONE, 0, { R_POS, R_CNT, R_REP }, OF_CH | OF_MUT);
   add("replace_it_fsit", "", F_REPLACE_IT_FSIT, SK_NONE, 0, { R_IT, R_IT, R_SIT, R_SIT }, OF_SRC | OF_MUT);
   add("replace_it_strit", "", F_REPLACE_IT_STRIT, SK_NONE, 0, { R_IT, R_IT, R_SIT, R_SIT }, OF_SRC | OF_MUT);
   add("replace_it_cstr_count", "", F_REPLACE_IT_CSTR_CNT, SK_CSTR, 0, { R_IT, R_IT, R_SARR }, OF_SRC | OF_MUT);
   add("replace_it_cstr", "", F_REPLACE_IT_CSTR, SK_CSTR, 0, { R_IT, R_IT }, OF_SRC | OF_MUT);
   add("replace_it_count_ch", "", F_REPLACE_IT_CNT_CH, SK_NONE, 0, { R_IT, R_IT, R_REP }, OF_CH | OF_MUT);
   add("replace_it_ilist", "", F_REPLACE_IT_ILIST, SK_NONE, 0, { R_IT, R_IT }, OF_SRC | OF_MUT);

   add("substr", "", F_SUBSTR, SK_NONE, 0, { R_POS, R_CNT }, 0);
   add("substr_defcount", "", F_SUBSTR_D, SK_NONE, 0, { R_POS }, 0);
   add("copy", "", F_COPY, SK_NONE, 0, { R_CNT, R_POS }, 0);
   add("copy_defpos", "", F_COPY_D, SK_NONE, 0, { R_CNT }, 0);
   add("swap", "", F_SWAP, SK_NONE, 0, { R_BIT, R_BIT }, OF_SRC | OF_MUT);

   for (int w = 0; w < 6; ++w)
   {
      const std::string n = SEARCH_NAMES[w];
      addKinds(n + "_str_pos", F_SEARCH, SAME, { R_POS }, 0, w);
      addKinds(n + "_str", F_SEARCH_D, SAME, {}, 0, w);
      add(n + "_cstr_pos_count", "", F_SEARCH_CSTR_CNT, SK_CSTR, w, { R_POS, w == 1 ? R_SCNT : (w == 0 ? R_SARR : R_TARR) }, OF_SRC);
      add(n + "_ch_pos", "", F_SEARCH_CH, SK_NONE, w, { R_POS }, OF_CH);
      add(n + "_ch", "", F_SEARCH_CH_D, SK_NONE, w, {}, OF_CH);
   }

   addKinds("equality", F_EQ, FSK, {}, 0);
   add("stream_out", "", F_STREAM, SK_NONE, 0, {}, 0);
   add("iterate_forward", "", F_ITER_FWD, SK_NONE, 0, {}, 0);
   add("iterate_reverse", "", F_ITER_REV, SK_NONE, 0, {}, 0);
   add("iterator_arithmetic", "", F_ITER_ARITH, SK_NONE, 0, { R_ANY, R_ANY }, 0);
   static const int FWD_EDGES[] = { 0, 1, 5, 6, 8, 9, 12, 14, 16, 18, 19, 20, 24, 25, 28, 30, 32 };
   static const int REV_EDGES[] = { 2, 3, 4, 7, 10, 11, 13, 15, 17, 21, 22, 23, 26, 27, 29, 31 };
   for (int e : FWD_EDGES) add("iterator_edge_forward", std::to_string(e), F_ITER_EDGE, SK_NONE, e, { R_POS }, OF_C10ONLY);
   for (int e : REV_EDGES) add("iterator_edge_reverse", std::to_string(e), F_ITER_EDGE, SK_NONE, e, { R_POS }, OF_C10ONLY);
}

// ------------------------------------------------------------------ argument grids

static void push_unique(std::vector<size_t>& v, size_t x)
{
   if (std::find(v.begin(), v.end(), x) == v.end()) v.push_back(x);
}

static const size_t P31 = size_t(1) << 31, P63 = size_t(1) << 63;

/// C10: deliberately out of domain
static std::vector<size_t> grid10(Role r, size_t len, size_t L, size_t slen, int level)
{
   std::vector<size_t> v;
   switch (r)
   {
   case R_POS: case R_CNT: case R_REP:
      for (size_t x : { size_t(0), size_t(1), len - 1, len, len + 1, L - 1, L, L + 1, 2 * L, P31, P63, NPOS - 1, NPOS }) push_unique(v, x);
      break;
   case R_IT:
      for (size_t x : { size_t(0), size_t(1), len - 1, len, len + 1, L + 1, NPOS }) push_unique(v, x);
      break;
   case R_SPOS: case R_SCNT: case R_SARR:
      if (level >= 2)
         for (size_t x : { size_t(0), size_t(1), slen - 1, slen, slen + 1, 2 * slen + 3, P31, P63, NPOS - 1, NPOS }) push_unique(v, x);
      else
         for (size_t x : { size_t(0), size_t(1), slen, slen + 1, P63, NPOS }) push_unique(v, x);
      break;
   case R_SIT:
      for (size_t x : { size_t(0), size_t(1), slen - 1, slen }) push_unique(v, x);
      break;
   case R_TARR:
      // the array is scanned once per character of the string: keep length x extent bounded
      for (size_t x : { size_t(0), size_t(1), slen - 1, slen, slen + 1, L, L + 1, 4 * L + 7 }) if (x <= std::min<size_t>(8 * L + 64, 4200)) push_unique(v, x);
      break;
   case R_BIT:
      v = { 0, 1 };
      break;
   case R_ANY:
      for (size_t x : { size_t(0), size_t(1), L, L + 1, 2 * L + 39, size_t(1000003) }) push_unique(v, x);
      break;
   default: break;
   }
   return v;
}

/// C11: the documented domain (positions <= length, source positions <= source length, counts arbitrary)
static std::vector<size_t> grid11(Role r, size_t len, size_t L, size_t slen)
{
   std::vector<size_t> v;
   switch (r)
   {
   case R_POS: case R_IT:
      for (size_t x = 0; x <= len; ++x) v.push_back(x);
      break;
   case R_CNT:
      for (size_t x = 0; x <= L + 1; ++x) v.push_back(x);
      v.push_back(NPOS);
      break;
   case R_REP:
      for (size_t x = 0; x <= L + 2; ++x) v.push_back(x);
      break;
   case R_SPOS: case R_SIT: case R_SARR: case R_TARR:
      for (size_t x = 0; x <= slen; ++x) v.push_back(x);
      break;
   case R_SCNT:
      for (size_t x = 0; x <= slen + 1; ++x) v.push_back(x);
      v.push_back(NPOS);
      break;
   case R_BIT:
      v = { 0, 1 };
      break;
   case R_ANY:
      for (size_t x : { size_t(0), size_t(1), size_t(2), size_t(3), L, L + 1, 2 * L + 39, size_t(1000003) }) push_unique(v, x);
      break;
   default: break;
   }
   return v;
}

/// all strings over the first k letters with length <= maxLen, shortest first
static std::vector<std::string> all_strings(unsigned k, size_t maxLen)
{
   std::vector<std::string> v(1, std::string());
   size_t from = 0;
   for (size_t n = 1; n <= maxLen; ++n)
   {
      const size_t to = v.size();
      for (size_t i = from; i < to; ++i)
         for (unsigned c = 0; c < k; ++c) v.push_back(v[i] + char('a' + c));
      from = to;
   }
   return v;
}

static std::string pattern(size_t n, const char* alphabet)
{
   const size_t k = strlen(alphabet);
   std::string s(n, ' ');
   for (size_t i = 0; i < n; ++i) s[i] = alphabet[i % k];
   return s;
}

/// runs f over the cartesian product of the argument lists of the operation
template <typename F> static void for_each_args(const OpDef& d, const std::vector<size_t> (&lists)[4], F&& f)
{
   size_t idx[4] = { 0, 0, 0, 0 };
   for (unsigned i = 0; i < d.nargs; ++i) if (lists[i].empty()) return;
   for (;;)
   {
      size_t a[4] = { 0, 0, 0, 0 };
      for (unsigned i = 0; i < d.nargs; ++i) a[i] = lists[i][idx[i]];
      f(a);
      unsigned i = 0;
      for (; i < d.nargs; ++i)
      {
         if (++idx[i] < lists[i].size()) break;
         idx[i] = 0;
      }
      if (i == d.nargs) break;
   }
}

// ------------------------------------------------------------------ exhaustive modes

struct ExhPlan
{
   // case index -> (capacity 1..4, variant, content, operation)
   std::vector<size_t> ops;          // indices into OPS that take part
   std::vector<std::string> contents[5];
   unsigned variants = 1;
   uint64_t total = 0;
   uint64_t first[6] = { 0, 0, 0, 0, 0, 0 };
   uint64_t mult = 1;
   void finish()
   {
      total = 0;
      for (size_t L = 1; L <= 4; ++L)
      {
         first[L] = total;
         total += uint64_t(variants) * contents[L].size() * ops.size();
      }
      first[5] = total;
      // bijective scramble of the case order so that cheap and expensive operations mix in every worker
      mult = 1000003;
      auto gcd = [](uint64_t a, uint64_t b) { while (b) { uint64_t t = a % b; a = b; b = t; } return a; };
      while (gcd(mult, total) != 1) mult += 2;
   }
   void decode(uint64_t idx, size_t& L, unsigned& variant, size_t& content, size_t& op) const
   {
      uint64_t j = (idx * mult) % total;
      L = 1;
      while (j >= first[L + 1]) ++L;
      j -= first[L];
      op = ops[j % ops.size()];
      j /= ops.size();
      content = size_t(j % contents[L].size());
      variant = unsigned(j / contents[L].size());
   }
};

static std::string brief(const std::string& s) { return shortText(s); }

static void run_c10exh(const vh::Args& a)
{
   const std::string only = a.gets("only");   // development aid: restrict to operations whose name contains this
   const int level = int(a.getu("gridlevel", 1));
   ExhPlan plan;
   for (size_t i = 0; i < OPS.size(); ++i) plan.ops.push_back(i);
   for (size_t L = 1; L <= 4; ++L) plan.contents[L] = all_strings(2, L);
   plan.variants = 3;   // 0: heap block, stale tail; 1: heap block, fresh; 2: between canaries, stale tail
   plan.finish();
   if (a.getu("info", 0)) { printf("c10exh total cases %" PRIu64 "\n", plan.total); return; }
   ctx.oracle = false;
   Session* sess[5] = { nullptr, make_session(1), make_session(2), make_session(3), make_session(4) };
   const uint64_t end = a.start + a.count;
   for (uint64_t idx = a.start; idx < end; ++idx)
   {
      out.curIdx = idx;
      if (idx >= plan.total) { out.stat("beyond_total"); continue; }
      size_t L, ci, oi;
      unsigned variant;
      plan.decode(idx, L, variant, ci, oi);
      const OpDef& d = OPS[oi];
      if (!only.empty() && d.name.find(only) == std::string::npos) { out.stat("filtered"); continue; }
      const std::string& content = plan.contents[L][ci];
      const bool stale = variant != 1;
      const int placement = variant == 2 ? 1 : 0;
      prog.set(idx, d.family + " " + d.name + " L=" + std::to_string(L) + " variant=" + std::to_string(variant) + " content=[" + content + "] (case start)");
      Session& s = *sess[L];
      out.stat("cases");
      // sources: lengths 0, 1, L-1, L, L+1, 4L
      std::vector<std::string> sources;
      if (d.flags & OF_SRC)
      {
         std::vector<size_t> lens;
         for (size_t x : { size_t(0), size_t(1), L - 1, L, L + 1, 4 * L }) push_unique(lens, x);
         for (size_t n : lens) sources.push_back(pattern(n, "ba"));
      }
      else
         sources.push_back(std::string());
      uint64_t calls = 0;
      bool dirty = true;
      for (const std::string& src : sources)
      {
         std::vector<size_t> lists[4];
         for (unsigned i = 0; i < d.nargs; ++i) lists[i] = grid10(d.role[i], content.size(), L, src.size(), level);
         Call c;
         c.def = &d;
         c.src = src;
         c.ch = 'x';
         auto one = [&](const size_t* args) {
            if (dirty || s.broken()) { if (!s.reset(content, stale, placement)) return; }
            for (int i = 0; i < 4; ++i) c.a[i] = args[i];
            s.exec(c);
            dirty = (d.flags & OF_MUT) != 0 || s.broken();
            ++calls;
         };
         if (d.nargs == 0) { size_t none[4] = { 0, 0, 0, 0 }; one(none); }
         else for_each_args(d, lists, one);
      }
      out.stat("distinct_exact", calls);
      if (out.wantSample() && calls)
         out.sample("c10exh L=" + std::to_string(L) + " content='" + content + "' variant=" + std::to_string(variant) + " " + d.name + ": " + std::to_string(calls) + " argument/source combinations");
   }
   for (Session* s : sess) delete s;
}

static void run_c11exh(const vh::Args& a)
{
   const std::string only = a.gets("only");
   const int level = int(a.getu("srclevel", 1));
   ExhPlan plan;
   for (size_t i = 0; i < OPS.size(); ++i) if (!(OPS[i].flags & OF_C10ONLY)) plan.ops.push_back(i);
   for (size_t L = 1; L <= 4; ++L) plan.contents[L] = all_strings(3, L);
   plan.variants = 1;
   plan.finish();
   if (a.getu("info", 0)) { printf("c11exh total cases %" PRIu64 "\n", plan.total); return; }
   ctx.oracle = true;
   Session* sess[5] = { nullptr, make_session(1), make_session(2), make_session(3), make_session(4) };
   const uint64_t end = a.start + a.count;
   for (uint64_t idx = a.start; idx < end; ++idx)
   {
      out.curIdx = idx;
      if (idx >= plan.total) { out.stat("beyond_total"); continue; }
      size_t L, ci, oi;
      unsigned variant;
      plan.decode(idx, L, variant, ci, oi);
      const OpDef& d = OPS[oi];
      if (!only.empty() && d.name.find(only) == std::string::npos) { out.stat("filtered"); continue; }
      const std::string& content = plan.contents[L][ci];
      const bool stale = (ci % 3) != 0;
      const int placement = (ci % 2) ? 1 : 0;
      prog.set(idx, d.family + " " + d.name + " L=" + std::to_string(L) + " content=[" + content + "] (case start)");
      Session& s = *sess[L];
      out.stat("cases");
      std::vector<std::string> sources;
      if (d.flags & OF_SRC)
      {
         // every source over {a,b,c} up to a length that depends on the number of further arguments,
         // plus long ones that force the cut at the capacity
         size_t maxLen = d.nargs <= 1 ? L + 2 : (d.nargs == 2 ? 3 : 2);
         if (level >= 2) maxLen = std::min(maxLen + 1, L + 2);
         if (d.fam == F_SPRINTF || d.fam == F_SWAP) maxLen = L + 2;
         sources = all_strings(3, maxLen);
         if (maxLen < L + 2)
            for (size_t n : { L + 1, L + 2, 2 * L + 3 }) if (n > maxLen) sources.push_back(pattern(n, "cab"));
      }
      else
         sources.push_back(std::string());
      std::vector<char> chars;
      if (d.flags & OF_CH) chars = { 'a', 'c', 'x' };
      else chars = { 'x' };
      uint64_t calls = 0;
      bool dirty = true;
      for (const std::string& src : sources)
      {
         std::vector<size_t> lists[4];
         for (unsigned i = 0; i < d.nargs; ++i) lists[i] = grid11(d.role[i], content.size(), L, src.size());
         for (char ch : chars)
         {
            Call c;
            c.def = &d;
            c.src = src;
            c.ch = ch;
            auto one = [&](const size_t* args) {
               if (dirty || s.broken()) { if (!s.reset(content, stale, placement)) return; }
               for (int i = 0; i < 4; ++i) c.a[i] = args[i];
               s.exec(c);
               dirty = (d.flags & OF_MUT) != 0 || s.broken();
               ++calls;
            };
            if (d.nargs == 0) { size_t none[4] = { 0, 0, 0, 0 }; one(none); }
            else for_each_args(d, lists, one);
         }
      }
      out.stat("distinct_exact", calls);
      if (out.wantSample() && calls)
         out.sample("c11exh L=" + std::to_string(L) + " content='" + content + "' " + d.name + ": " + std::to_string(calls) + " argument/source combinations, " + std::to_string(sources.size()) + " sources");
   }
   for (Session* s : sess) delete s;
}

/// equality / inequality / compare over all pairs of contents, L <= 3, other capacity S = L, S < L.. S > L
static void run_c11eq(const vh::Args& a)
{
   std::vector<size_t> eqOps, cmpOps;
   for (size_t i = 0; i < OPS.size(); ++i)
   {
      if (OPS[i].fam == F_EQ) eqOps.push_back(i);
      if (OPS[i].fam == F_COMPARE && (OPS[i].sk == SK_FS0 || OPS[i].sk == SK_FS1 || OPS[i].sk == SK_FS2)) cmpOps.push_back(i);
   }
   std::vector<std::string> contents[4];
   uint64_t first[5] = { 0, 0, 0, 0, 0 }, total = 0;
   for (size_t L = 1; L <= 3; ++L)
   {
      contents[L] = all_strings(3, L);
      first[L] = total;
      total += contents[L].size() * eqOps.size();
   }
   first[4] = total;
   if (a.getu("info", 0)) { printf("c11eq total cases %" PRIu64 "\n", total); return; }
   ctx.oracle = true;
   Session* sess[4] = { nullptr, make_session(1), make_session(2), make_session(3) };
   const std::vector<std::string> others = all_strings(3, 3);
   const uint64_t end = a.start + a.count;
   for (uint64_t idx = a.start; idx < end; ++idx)
   {
      out.curIdx = idx;
      if (idx >= total) { out.stat("beyond_total"); continue; }
      size_t L = 1;
      while (idx >= first[L + 1]) ++L;
      uint64_t j = idx - first[L];
      const size_t k = size_t(j % eqOps.size());
      const std::string& content = contents[L][j / eqOps.size()];
      Session& s = *sess[L];
      prog.set(idx, OPS[eqOps[k]].family + " " + OPS[eqOps[k]].name + " L=" + std::to_string(L) + " content=[" + content + "] (case start)");
      out.stat("cases");
      if (!s.reset(content, (j & 1) != 0, 0)) continue;
      uint64_t calls = 0;
      for (const std::string& o : others)
      {
         if (o.size() > s.srcCap(OPS[eqOps[k]].sk)) continue;   // does not fit into the other string
         Call c;
         c.src = o;
         c.def = &OPS[eqOps[k]];
         s.exec(c);
         c.def = &OPS[cmpOps[k]];
         s.exec(c);
         calls += 2;
         out.stat("pairs");
      }
      out.stat("distinct_exact", calls);
      if (out.wantSample()) out.sample("c11eq L=" + std::to_string(L) + " S=" + std::to_string(s.srcCap(OPS[eqOps[k]].sk)) + " '" + content + "' against " + std::to_string(calls / 2) + " other contents (==, !=, compare)");
   }
   for (Session* s : sess) delete s;
}

// ------------------------------------------------------------------ random histories

static std::string random_text(vh::Rng& r, size_t n, bool printable)
{
   std::string s(n, ' ');
   const unsigned base = printable ? 33 : 'a', span = printable ? 94 : 3;
   size_t i = 0;
   while (i < n)
   {
      uint64_t x = r.next();
      for (int k = 0; k < 8 && i < n; ++k, x >>= 8) s[i++] = char(base + (x & 0xff) % span);
   }
   return s;
}

static size_t pick_cap(vh::Rng& r)
{
   const unsigned p = unsigned(r.below(100));
   if (p < 45) return CAPS[r.below(10)];          // 1..31
   if (p < 88) return CAPS[10 + r.below(5)];      // 254..257, 1000
   return CAPS[15 + r.below(4)];                  // 65534..65537
}

static size_t random_len(vh::Rng& r, size_t L, bool nearCap)
{
   if (nearCap) { const size_t d = size_t(r.below(3)); return L >= d ? L - d : L; }
   switch (r.below(6))
   {
   case 0: return 0;
   case 1: return 1;
   case 2: return L;
   case 3: return L > 0 ? L - 1 : 0;
   default: return size_t(r.below(L + 1));
   }
}

static size_t random_src_len(vh::Rng& r, size_t L)
{
   switch (r.below(9))
   {
   case 0: return 0;
   case 1: return 1;
   case 2: return L - 1;
   case 3: return L;
   case 4: return L + 1;
   case 5: return 4 * L;
   case 6: return size_t(r.below(4));
   default: return size_t(r.below(std::min<size_t>(2 * L + 2, L + 40)));
   }
}

static void run_hist(const vh::Args& a, bool oracle)
{
   ctx.oracle = oracle;
   const uint64_t nops = a.getu("ops", 200);
   std::vector<size_t> pool;
   const std::string only = a.gets("only");
   const size_t forceCap = size_t(a.getu("cap", 0));
   for (size_t i = 0; i < OPS.size(); ++i)
      if ((!oracle || !(OPS[i].flags & OF_C10ONLY)) && (only.empty() || OPS[i].name.find(only) != std::string::npos)) pool.push_back(i);
   std::map<size_t, Session*> sessions;
   const uint64_t end = a.start + a.count;
   for (uint64_t idx = a.start; idx < end; ++idx)
   {
      out.curIdx = idx;
      vh::Rng r(vh::mix(a.seed, vh::mix(vh::hash_str(a.mode), idx)));
      size_t L = pick_cap(r);
      if (forceCap) L = forceCap;   // development aid
      Session*& sp = sessions[L];
      if (!sp) sp = make_session(L);
      Session& s = *sp;
      const bool printable = L > 4 || r.chance(1, 2);
      const int placement = r.chance(1, 3) ? 1 : 0;
      const bool stale = r.chance(3, 4);
      const std::string init = random_text(r, random_len(r, L, r.chance(1, 2)), printable);
      prog.set(idx, std::string("history L=") + std::to_string(L) + " (start)");
      out.stat("cases");
      out.stat("cap." + std::to_string(L));
      if (!s.reset(init, stale, placement)) continue;
      const uint64_t steps = L > 60000 ? std::min<uint64_t>(nops, 60) : nops;
      uint64_t h = vh::hash_str(init, vh::hash_u64(L));
      std::string trace;
      for (uint64_t step = 0; step < steps && !s.broken(); ++step)
      {
         const OpDef& d = OPS[pool[r.below(pool.size())]];
         Call c;
         c.def = &d;
         const size_t len = s.len();
         if (d.flags & OF_SRC)
         {
            size_t sl = random_src_len(r, L);
            if (oracle && r.chance(1, 3)) sl = size_t(r.below(4));
            c.src = random_text(r, sl, printable);
            if (!oracle && r.chance(1, 200) && sl > 0 && d.sk != SK_CSTR && (d.sk != SK_NONE || d.fam == F_INSERT_IT_ILIST || d.fam == F_REPLACE_IT_ILIST)) c.src[r.below(sl)] = '\0';
         }
         if (d.flags & OF_CH)
         {
            c.ch = printable ? char(33 + r.below(94)) : char('a' + r.below(4));
            if (!oracle && r.chance(1, 100)) c.ch = '\0';
            // characters that occur in the string make the search family interesting
            if (len > 0 && r.chance(1, 2)) { const std::string cur = s.content(); if (!cur.empty()) c.ch = cur[r.below(cur.size())]; }
            if (oracle && c.ch == '\0') c.ch = 'q';
         }
         // sources that share text with the string (search / compare / starts_with ...)
         if ((d.flags & OF_SRC) && !(d.flags & OF_MUT) && len > 0 && r.chance(1, 2))
         {
            const std::string cur = s.content();
            if (!cur.empty())
            {
               const size_t p = size_t(r.below(cur.size()));
               c.src = cur.substr(p, 1 + size_t(r.below(std::min<size_t>(cur.size() - p, 6))));
               if (r.chance(1, 4)) c.src += char('a' + r.below(26));
            }
         }
         // the search family scans the needle once per character of the string (and ASan's strict string
         // checks measure the whole needle on every strchr): keep needle x string bounded for huge capacities
         if ((d.fam == F_SEARCH || d.fam == F_SEARCH_D || d.fam == F_SEARCH_CSTR_CNT || d.fam == F_CONTAINS) && L > 4096 && c.src.size() > 2048)
            c.src.resize(2048);
         for (unsigned i = 0; i < d.nargs; ++i)
         {
            std::vector<size_t> g = oracle ? std::vector<size_t>() : grid10(d.role[i], len, L, c.src.size(), 2);
            if (!oracle)
            {
               c.a[i] = r.chance(2, 3) ? g[r.below(g.size())] : size_t(r.below(2 * L + 3));
               if (d.role[i] == R_TARR && c.a[i] > 4200) c.a[i] = g[r.below(g.size())];
               continue;
            }
            // in-domain draw
            const size_t sl = c.src.size();
            switch (d.role[i])
            {
            case R_POS: case R_IT: c.a[i] = size_t(r.below(len + 1)); if (r.chance(1, 6)) c.a[i] = len; break;
            case R_CNT:
               switch (r.below(6)) { case 0: c.a[i] = NPOS; break; case 1: c.a[i] = 0; break; case 2: c.a[i] = size_t(r.below(2 * L + 3)); break; case 3: c.a[i] = P63 + r.below(5); break; default: c.a[i] = size_t(r.below(len + 2)); }
               break;
            case R_REP: c.a[i] = r.chance(1, 8) ? size_t(r.below(2 * L + 3)) : size_t(r.below(std::min<size_t>(L + 3, 12))); break;
            case R_SPOS: case R_SIT: case R_SARR: case R_TARR: c.a[i] = size_t(r.below(sl + 1)); if (r.chance(1, 6)) c.a[i] = sl; break;
            case R_SCNT:
               switch (r.below(5)) { case 0: c.a[i] = NPOS; break; case 1: c.a[i] = 0; break; case 2: c.a[i] = P63 + r.below(5); break; default: c.a[i] = size_t(r.below(sl + 2)); }
               break;
            case R_BIT: c.a[i] = size_t(r.below(2)); break;
            default: c.a[i] = size_t(r.below(3 * L + 50)); break;
            }
         }
         s.exec(c);
         h = vh::hash_u64(c.a[0] ^ (c.a[1] << 7) ^ (c.a[2] << 17) ^ (c.a[3] << 29), vh::hash_str(c.src, vh::hash_u64(d.index * 131 + (unsigned char)c.ch, h)));
         out.stat("steps");
         if (out.wantSample() && step < 6)
         {
            trace += d.name + "(";
            for (unsigned i = 0; i < d.nargs; ++i) trace += (i ? "," : "") + numstr(c.a[i]);
            trace += ") ";
         }
      }
      out.distinct(h);
      if (out.wantSample()) out.sample(std::string(oracle ? "c11hist" : "c10hist") + " L=" + std::to_string(L) + " init='" + brief(init) + "' " + trace + "...");
   }
   for (auto& kv : sessions) delete kv.second;
}

// ------------------------------------------------------------------ main

int main(int argc, char** argv)
{
   vh::Args a = vh::parse_args(argc, argv);
   prog.open(a.progress);
   ctx.out = &out;
   ctx.prog = &prog;
   ctx.verbose = a.getu("verbose", 0) != 0;
   build_ops();
   ctx.opCount.assign(OPS.size(), 0);

   // self check of the initializer_list construction used for exact-size lists
   {
      IlBlock il("abc");
      if (il.il.size() != 3 || il.il.begin() != il.p || *(il.il.begin() + 2) != 'c') { fprintf(stderr, "initializer_list layout differs\n"); return 3; }
   }

   if (a.mode == "c10exh") run_c10exh(a);
   else if (a.mode == "c11exh") run_c11exh(a);
   else if (a.mode == "c11eq") run_c11eq(a);
   else if (a.mode == "c10hist") run_hist(a, false);
   else if (a.mode == "c11hist") run_hist(a, true);
   else
   {
      fprintf(stderr, "unknown mode %s\n", a.mode.c_str());
      return 3;
   }
   if (a.getu("info", 0)) return 0;
   for (size_t i = 0; i < OPS.size(); ++i)
      if (ctx.opCount[i]) out.stat("op." + OPS[i].name, ctx.opCount[i]);
   out.stat("calls", ctx.nCalls);
   out.stat("judged_mutations", ctx.nJudgedMut);
   out.stat("judged_observations", ctx.nJudgedObs);
   out.stat("exceptions", ctx.nExceptions);
   out.stat("truncations", ctx.nTrunc);
   out.finish(a);
   return 0;
}
