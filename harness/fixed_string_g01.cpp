// C10 / C11 - FixedString executor instantiations for the capacities 1, 65537 (see fixed_string.cpp;
// one translation unit per pair of capacities keeps the ASan build parallel and short)
#include "fixed_string_rig.hpp"

namespace fsv {

Session* make_session_g01(size_t L, Ctx& ctx)
{
   switch (L)
   {
   case 1: return new SessionImpl<1>(ctx);
   case 65537: return new SessionImpl<65537>(ctx);
   default: return nullptr;
   }
}

}   // namespace fsv
