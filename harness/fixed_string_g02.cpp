// C10 / C11 - FixedString executor instantiations for the capacities 2, 65536 (see fixed_string.cpp;
// one translation unit per pair of capacities keeps the ASan build parallel and short)
#include "fixed_string_rig.hpp"

namespace fsv {

Session* make_session_g02(size_t L, Ctx& ctx)
{
   switch (L)
   {
   case 2: return new SessionImpl<2>(ctx);
   case 65536: return new SessionImpl<65536>(ctx);
   default: return nullptr;
   }
}

}   // namespace fsv
