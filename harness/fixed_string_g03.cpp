// C10 / C11 - FixedString executor instantiations for the capacities 3, 65535 (see fixed_string.cpp;
// one translation unit per pair of capacities keeps the ASan build parallel and short)
#include "fixed_string_rig.hpp"

namespace fsv {

Session* make_session_g03(size_t L, Ctx& ctx)
{
   switch (L)
   {
   case 3: return new SessionImpl<3>(ctx);
   case 65535: return new SessionImpl<65535>(ctx);
   default: return nullptr;
   }
}

}   // namespace fsv
