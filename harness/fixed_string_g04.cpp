// C10 / C11 - FixedString executor instantiations for the capacities 4, 65534 (see fixed_string.cpp;
// one translation unit per pair of capacities keeps the ASan build parallel and short)
#include "fixed_string_rig.hpp"

namespace fsv {

Session* make_session_g04(size_t L, Ctx& ctx)
{
   switch (L)
   {
   case 4: return new SessionImpl<4>(ctx);
   case 65534: return new SessionImpl<65534>(ctx);
   default: return nullptr;
   }
}

}   // namespace fsv
