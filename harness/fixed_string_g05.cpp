// C10 / C11 - FixedString executor instantiations for the capacities 5, 1000 (see fixed_string.cpp;
// one translation unit per pair of capacities keeps the ASan build parallel and short)
#include "fixed_string_rig.hpp"

namespace fsv {

Session* make_session_g05(size_t L, Ctx& ctx)
{
   switch (L)
   {
   case 5: return new SessionImpl<5>(ctx);
   case 1000: return new SessionImpl<1000>(ctx);
   default: return nullptr;
   }
}

}   // namespace fsv
