// C10 / C11 - FixedString executor instantiations for the capacities 7, 257 (see fixed_string.cpp;
// one translation unit per pair of capacities keeps the ASan build parallel and short)
#include "fixed_string_rig.hpp"

namespace fsv {

Session* make_session_g06(size_t L, Ctx& ctx)
{
   switch (L)
   {
   case 7: return new SessionImpl<7>(ctx);
   case 257: return new SessionImpl<257>(ctx);
   default: return nullptr;
   }
}

}   // namespace fsv
