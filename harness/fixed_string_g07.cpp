// C10 / C11 - FixedString executor instantiations for the capacities 8, 256 (see fixed_string.cpp;
// one translation unit per pair of capacities keeps the ASan build parallel and short)
#include "fixed_string_rig.hpp"

namespace fsv {

Session* make_session_g07(size_t L, Ctx& ctx)
{
   switch (L)
   {
   case 8: return new SessionImpl<8>(ctx);
   case 256: return new SessionImpl<256>(ctx);
   default: return nullptr;
   }
}

}   // namespace fsv
