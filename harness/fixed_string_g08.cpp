// C10 / C11 - FixedString executor instantiations for the capacities 15, 255 (see fixed_string.cpp;
// one translation unit per pair of capacities keeps the ASan build parallel and short)
#include "fixed_string_rig.hpp"

namespace fsv {

Session* make_session_g08(size_t L, Ctx& ctx)
{
   switch (L)
   {
   case 15: return new SessionImpl<15>(ctx);
   case 255: return new SessionImpl<255>(ctx);
   default: return nullptr;
   }
}

}   // namespace fsv
