// C10 / C11 - FixedString executor instantiations for the capacities 16, 254 (see fixed_string.cpp;
// one translation unit per pair of capacities keeps the ASan build parallel and short)
#include "fixed_string_rig.hpp"

namespace fsv {

Session* make_session_g09(size_t L, Ctx& ctx)
{
   switch (L)
   {
   case 16: return new SessionImpl<16>(ctx);
   case 254: return new SessionImpl<254>(ctx);
   default: return nullptr;
   }
}

}   // namespace fsv
