// C10 / C11 - FixedString executor instantiations, capacities 1, 2, 3, 4, 5 (see fixed_string.cpp)
#include "fixed_string_rig.hpp"

namespace fsv {

Session* make_session_g1(size_t L, Ctx& ctx)
{
   switch (L)
   {
   case 1: return new SessionImpl<1>(ctx);
   case 2: return new SessionImpl<2>(ctx);
   case 3: return new SessionImpl<3>(ctx);
   case 4: return new SessionImpl<4>(ctx);
   case 5: return new SessionImpl<5>(ctx);
   default: return nullptr;
   }
}

}   // namespace fsv
