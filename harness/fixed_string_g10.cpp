// C10 / C11 - FixedString executor instantiations for the capacities 31 (see fixed_string.cpp;
// one translation unit per pair of capacities keeps the ASan build parallel and short)
#include "fixed_string_rig.hpp"

namespace fsv {

Session* make_session_g10(size_t L, Ctx& ctx)
{
   switch (L)
   {
   case 31: return new SessionImpl<31>(ctx);
   default: return nullptr;
   }
}

}   // namespace fsv
