// C10 / C11 - FixedString executor instantiations, capacities 7, 8, 15, 16, 31 (see fixed_string.cpp)
#include "fixed_string_rig.hpp"

namespace fsv {

Session* make_session_g2(size_t L, Ctx& ctx)
{
   switch (L)
   {
   case 7: return new SessionImpl<7>(ctx);
   case 8: return new SessionImpl<8>(ctx);
   case 15: return new SessionImpl<15>(ctx);
   case 16: return new SessionImpl<16>(ctx);
   case 31: return new SessionImpl<31>(ctx);
   default: return nullptr;
   }
}

}   // namespace fsv
