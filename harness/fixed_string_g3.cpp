// C10 / C11 - FixedString executor instantiations, capacities 254, 255, 256, 257, 1000 (see fixed_string.cpp)
#include "fixed_string_rig.hpp"

namespace fsv {

Session* make_session_g3(size_t L, Ctx& ctx)
{
   switch (L)
   {
   case 254: return new SessionImpl<254>(ctx);
   case 255: return new SessionImpl<255>(ctx);
   case 256: return new SessionImpl<256>(ctx);
   case 257: return new SessionImpl<257>(ctx);
   case 1000: return new SessionImpl<1000>(ctx);
   default: return nullptr;
   }
}

}   // namespace fsv
