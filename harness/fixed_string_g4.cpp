// C10 / C11 - FixedString executor instantiations, capacities 65534, 65535, 65536, 65537 (see fixed_string.cpp)
#include "fixed_string_rig.hpp"

namespace fsv {

Session* make_session_g4(size_t L, Ctx& ctx)
{
   switch (L)
   {
   case 65534: return new SessionImpl<65534>(ctx);
   case 65535: return new SessionImpl<65535>(ctx);
   case 65536: return new SessionImpl<65536>(ctx);
   case 65537: return new SessionImpl<65537>(ctx);
   default: return nullptr;
   }
}

}   // namespace fsv
