// C10 / C11 - celma::common::FixedString<L>: shared rig of harness/fixed_string*.cpp.
//
// The non-template part (operation table, argument grids, case generators, modes) lives in
// fixed_string.cpp; this header holds the per-capacity executor SessionImpl<L>, which is
// instantiated for groups of capacities in fixed_string_g01..g10.cpp (compile time).
//
// One executor serves both properties:
//   * C10 (oracle off): arguments out of domain; after every call the structural invariant
//     (length <= L, NUL at length, strlen == length when no NUL was stored) and the canaries are
//     checked; ASan/UBSan see every access because the object under test, every source operand and
//     every output buffer live in exact-size heap blocks.
//   * C11 (oracle on): a lock-step std::string `ref`; the same call is applied to both, mutators are
//     compared by content (reference result cut at L), observers by value.
#pragma once

#include "vh.hpp"

#include <algorithm>
#include <cstdarg>
#include <initializer_list>
#include <new>
#include <sstream>
#include <stdexcept>
#include <string>

#if defined(__SANITIZE_ADDRESS__)
#include <sanitizer/asan_interface.h>
#define FSV_POISON(p, n) __asan_poison_memory_region((p), (n))
#define FSV_UNPOISON(p, n) __asan_unpoison_memory_region((p), (n))
#else
#define FSV_POISON(p, n) ((void)0)
#define FSV_UNPOISON(p, n) ((void)0)
#endif

#include "celma/common/fixed_string.hpp"

namespace fsv {

using celma::common::FixedString;
static constexpr size_t NPOS = std::string::npos;

// ------------------------------------------------------------------ operation table

enum Sk : uint8_t { SK_NONE, SK_CSTR, SK_STRING, SK_FS0, SK_FS1, SK_FS2 };

enum Role : uint8_t
{
   R_NONE,
   R_POS,    // position in this string
   R_CNT,    // count of characters of this string
   R_SPOS,   // position in the source
   R_SCNT,   // count of source characters, clamped by the callee (npos = rest)
   R_SARR,   // count of a (pointer, count) pair handed to a mutator: the array holds min(count, L+1) characters
             // at least - more cannot be stored, so a correct implementation never reads further
   R_TARR,   // count of a (pointer, count) pair that is read completely (find_first_of ...): true array extent
   R_REP,    // number of repetitions of a character
   R_IT,     // iterator into this string, given as offset from begin() (>= length: end())
   R_SIT,    // iterator into the source, given as offset
   R_BIT,    // 0 / 1
   R_ANY     // free number (sprintf, iterator arithmetic)
};

enum Fam : uint16_t
{
   F_OBSERVE, F_AT, F_AT_CONST, F_INDEX, F_FRONT_BACK, F_SET_CHAR,
   F_CTOR_DEFAULT, F_CTOR, F_CTOR_MOVE, F_ASSIGN, F_OPASSIGN, F_CLEAR,
   F_INSERT_CNT_CH, F_INSERT_CSTR_CNT, F_INSERT, F_INSERT_PART, F_INSERT_PART_D,
   F_INSERT_IT_CH, F_INSERT_IT_CNT_CH, F_INSERT_IT_ILIST,
   F_ERASE, F_ERASE_D0, F_ERASE_D1, F_ERASE_IT, F_ERASE_IT_IT,
   F_PUSH_BACK, F_POP_BACK,
   F_APPEND_CNT_CH, F_APPEND, F_APPEND_PART, F_APPEND_PART_D, F_APPEND_CSTR_CNT, F_APPEND_IT_IT,
   F_SPRINTF, F_PLUSEQ, F_PLUSEQ_CH,
   F_COMPARE, F_COMPARE_P, F_COMPARE_PP, F_COMPARE_P_CSTR_CNT,
   F_STARTS, F_STARTS_CH, F_ENDS, F_ENDS_CH, F_CONTAINS, F_CONTAINS_CH,
   F_REPLACE, F_REPLACE_PP, F_REPLACE_PP_D, F_REPLACE_CSTR_CNT, F_REPLACE_CNT_CH,
   F_REPLACE_IT_FSIT, F_REPLACE_IT_STRIT, F_REPLACE_IT_CSTR_CNT, F_REPLACE_IT_CSTR,
   F_REPLACE_IT_CNT_CH, F_REPLACE_IT_ILIST,
   F_SUBSTR, F_SUBSTR_D, F_COPY, F_COPY_D, F_SWAP,
   F_SEARCH, F_SEARCH_D, F_SEARCH_CSTR_CNT, F_SEARCH_CH, F_SEARCH_CH_D,
   F_EQ, F_STREAM, F_ITER_FWD, F_ITER_REV, F_ITER_ARITH, F_ITER_EDGE,
   F_COUNT_
};

enum OpFlags : unsigned { OF_SRC = 1, OF_CH = 2, OF_MUT = 4, OF_C10ONLY = 8 };

struct OpDef
{
   std::string family;   // first word of the progress descriptor, part of the stable keys
   std::string name;     // family + source kind / variant (counters)
   Fam fam;
   Sk sk;
   uint8_t sub;
   uint8_t nargs;
   Role role[4];
   unsigned flags;
   unsigned index;
};

struct Call
{
   const OpDef* def = nullptr;
   size_t a[4] = { 0, 0, 0, 0 };
   char ch = 'x';
   std::string src;
};

static const char* const SEARCH_NAMES[6] = { "find", "rfind", "find_first_of", "find_first_not_of",
                                             "find_last_of", "find_last_not_of" };

// ------------------------------------------------------------------ reporting context

struct Ctx
{
   vh::Out* out = nullptr;
   vh::Progress* prog = nullptr;
   bool oracle = false;    // C11
   bool verbose = false;
   bool describe = true;   // write a progress descriptor before every call
   std::vector<uint64_t> opCount;   // per OpDef::index
   uint64_t nCalls = 0, nJudgedMut = 0, nJudgedObs = 0, nExceptions = 0, nTrunc = 0;   // hot counters
};

/// interface between the generators (non-template) and the executor (per capacity)
struct Session
{
   virtual ~Session() {}
   virtual size_t cap() const = 0;
   virtual size_t len() const = 0;
   /// fresh object; placement 0 = alone in an exact-size heap block, 1 = between canaries;
   /// stale = the unused part of the buffer holds old non-NUL characters
   virtual bool reset(const std::string& content, bool stale, int placement) = 0;
   virtual void exec(const Call& c) = 0;
   virtual std::string content() const = 0;
   virtual bool broken() const = 0;   // invariant lost / reference out of sync: stop this history
   /// capacities of the other fixed strings used as sources
   virtual size_t srcCap(Sk sk) const = 0;
};

// ------------------------------------------------------------------ exact-size operands

/// C string in an exact-size heap block (optionally followed by readable filler for
/// (pointer, count) overloads whose count describes the array)
struct CStrBlock
{
   char* p;
   size_t size;
   explicit CStrBlock(const std::string& s, size_t minSize = 0)
   {
      size = std::max(s.size() + 1, minSize);
      p = static_cast<char*>(malloc(size));
      memcpy(p, s.data(), s.size());
      p[s.size()] = 0;
      for (size_t i = s.size() + 1; i < size; ++i) p[i] = 'z';
   }
   ~CStrBlock() { free(p); }
   CStrBlock(const CStrBlock&) = delete;
};

/// std::string object in an exact-size heap block; character data is an exact heap block
/// (length >= 16) or the SSO buffer whose unused tail is poisoned
struct StrBlock
{
   std::string* s;
   const char* tailBeg = nullptr;
   size_t tailLen = 0;
   explicit StrBlock(const std::string& text)
   {
      void* m = malloc(sizeof(std::string));
      s = new (m) std::string(text.data(), text.size());
      const char* obj = reinterpret_cast<const char*>(s);
      const char* d = s->data();
      if (d >= obj && d < obj + sizeof(std::string))
      {
         tailBeg = d + s->size() + 1;
         const char* end = obj + sizeof(std::string);
         if (tailBeg < end) { tailLen = size_t(end - tailBeg); FSV_POISON(tailBeg, tailLen); }
      }
   }
   ~StrBlock()
   {
      if (tailLen) FSV_UNPOISON(tailBeg, tailLen);
      s->~basic_string();
      free(s);
   }
   StrBlock(const StrBlock&) = delete;
};

template <size_t S> struct FsBlock
{
   FixedString<S>* f;
   explicit FsBlock(const std::string& text)
   {
      void* m = malloc(sizeof(FixedString<S>));
      f = new (m) FixedString<S>(text);   // std::string constructor: keeps embedded NUL characters
   }
   ~FsBlock() { f->~FixedString<S>(); free(f); }
   FsBlock(const FsBlock&) = delete;
   bool holds(const std::string& exp) const
   {
      return f->length() == exp.size() && memcmp(f->c_str(), exp.data(), exp.size()) == 0 && f->c_str()[exp.size()] == 0;
   }
};

/// std::initializer_list over an exact-size heap array (libstdc++ layout: pointer, length;
/// verified at start-up by fixed_string.cpp)
struct IlBlock
{
   char* p;
   std::initializer_list<char> il;
   explicit IlBlock(const std::string& text)
   {
      p = static_cast<char*>(malloc(text.size()));
      if (!text.empty()) memcpy(p, text.data(), text.size());
      struct Raw { const char* a; size_t n; } raw = { p, text.size() };
      static_assert(sizeof(Raw) == sizeof(std::initializer_list<char>), "initializer_list layout");
      memcpy(static_cast<void*>(&il), &raw, sizeof raw);
   }
   ~IlBlock() { free(p); }
   IlBlock(const IlBlock&) = delete;
};

inline int sgn(long long v) { return v < 0 ? -1 : (v > 0 ? 1 : 0); }

inline std::string numstr(size_t v)
{
   if (v == NPOS) return "npos";
   if (v == NPOS - 1) return "npos-1";
   if (v == (size_t(1) << 63)) return "2^63";
   if (v == (size_t(1) << 31)) return "2^31";
   return std::to_string(v);
}

inline std::string shortText(const std::string& s)
{
   if (s.size() <= 48) return vh::printable(s);
   return vh::printable(s.substr(0, 20)) + "...(" + std::to_string(s.size()) + " chars)..." + vh::printable(s.substr(s.size() - 8));
}

// ------------------------------------------------------------------ executor

template <size_t L> class SessionImpl final : public Session
{
public:
   using FS = FixedString<L>;
   static constexpr size_t S1 = (L >= 4) ? L / 2 : (L == 1 ? 2 : 1);
   static constexpr size_t S2 = 4 * L + 2;

   explicit SessionImpl(Ctx& c) : ctx(c) {}
   ~SessionImpl() override { destroy(); }

   size_t cap() const override { return L; }
   size_t len() const override { return fs ? fs->length() : 0; }
   std::string content() const override { return fs ? std::string(fs->c_str(), std::min(fs->length(), L)) : std::string(); }
   bool broken() const override { return isBroken; }
   size_t srcCap(Sk sk) const override { return sk == SK_FS0 ? L : sk == SK_FS1 ? S1 : sk == SK_FS2 ? S2 : NPOS; }

   bool reset(const std::string& content, bool stale, int placement) override
   {
      destroy();
      create(placement);
      isBroken = false;
      nulStored = content.find('\0') != std::string::npos;
      if (stale)
      {
         fs->assign(std::string(L, 'Z'));
         fs->clear();
      }
      fs->assign(content);
      ref = content.substr(0, L);
      if (fs->length() != ref.size() || memcmp(fs->c_str(), ref.data(), ref.size()) != 0 || fs->c_str()[ref.size()] != 0)
      {
         ctx.out->viol("setup|assign-content", "L=" + std::to_string(L) + " assign('" + shortText(content) + "') left '" + shortText(this->content()) + "' length " + std::to_string(fs->length()));
         isBroken = true;
         return false;
      }
      return true;
   }

   void exec(const Call& c) override
   {
      cur = &c;
      if (ctx.describe) describe(c);
      ++ctx.nCalls;
      ++ctx.opCount[c.def->index];
      threw = false;
      try
      {
         dispatch(c);
      }
      catch (const std::exception& e)
      {
         // an exception that left a public member which is not noexcept (at(), iterators)
         threw = true;
         ++ctx.nExceptions;
         if (ctx.oracle && expectNoThrow)
            fail("unexpected-exception", std::string(e.what()));
      }
      checkInvariant();
   }

private:
   struct Guarded
   {
      unsigned char pre[32];
      FS fs;
      unsigned char post[32];
   };

   Ctx& ctx;
   void* mem = nullptr;
   FS* fs = nullptr;
   bool guarded = false;
   std::string ref;          // C11 reference (also kept in C10 mode as "last observed content")
   bool nulStored = false;
   bool srcHasNul = false;
   bool isBroken = false;
   bool threw = false;
   bool expectNoThrow = true;
   const Call* cur = nullptr;
   std::string srcText;      // what the source operand really holds (after its own capacity cut)

   // ---------------------------------------------------------------- object placement
   void create(int placement)
   {
      guarded = placement == 1;
      if (guarded)
      {
         mem = malloc(sizeof(Guarded));
         memset(mem, 0xA5, sizeof(Guarded));
         fs = new (&static_cast<Guarded*>(mem)->fs) FS;
      }
      else
      {
         mem = malloc(sizeof(FS));
         memset(mem, 0xA5, sizeof(FS));
         fs = new (mem) FS;
      }
   }
   void destroy()
   {
      if (!fs) return;
      fs->~FS();
      free(mem);
      fs = nullptr;
      mem = nullptr;
   }
   bool canariesOk() const
   {
      if (!guarded) return true;
      const Guarded* g = static_cast<const Guarded*>(mem);
      for (unsigned char b : g->pre) if (b != 0xA5) return false;
      for (unsigned char b : g->post) if (b != 0xA5) return false;
      return true;
   }

   // ---------------------------------------------------------------- reporting
   std::string where() const
   {
      std::string d = "L=" + std::to_string(L) + " before='" + shortText(ref) + "' op=" + cur->def->name + "(";
      for (unsigned i = 0; i < cur->def->nargs; ++i) d += (i ? "," : "") + numstr(cur->a[i]);
      d += ")";
      if (cur->def->flags & OF_CH) { d += " ch='"; d += vh::printable(std::string(1, cur->ch)); d += "'"; }
      if (cur->def->flags & OF_SRC) d += " src='" + shortText(cur->src) + "'";
      return d;
   }
   void fail(const std::string& kind, const std::string& detail)
   {
      ctx.out->viol(cur->def->family + "|" + kind, where() + " : " + detail);
   }
   static char* putStr(char* p, char* end, const char* t, size_t n)
   {
      if (n > size_t(end - p)) n = size_t(end - p);
      memcpy(p, t, n);
      return p + n;
   }
   static char* putNum(char* p, char* end, size_t v)
   {
      if (v == NPOS) return putStr(p, end, "npos", 4);
      if (v == NPOS - 1) return putStr(p, end, "npos-1", 6);
      char tmp[24];
      int k = 0;
      do { tmp[k++] = char('0' + v % 10); v /= 10; } while (v);
      while (k > 0 && p < end) *p++ = tmp[--k];
      return p;
   }
   /// progress descriptor "<family> <name> L=.. len=.. [content] args=.. ch=.. src(n)=[..]" (hot path: no printf)
   void describe(const Call& c)
   {
      char buf[400];
      char* p = buf;
      char* const end = buf + sizeof buf - 1;
      p = putStr(p, end, c.def->family.data(), c.def->family.size());
      p = putStr(p, end, " ", 1);
      p = putStr(p, end, c.def->name.data(), c.def->name.size());
      p = putStr(p, end, " L=", 3);
      p = putNum(p, end, L);
      p = putStr(p, end, " len=", 5);
      p = putNum(p, end, ref.size());
      p = putStr(p, end, " [", 2);
      p = putText(p, end, ref);
      p = putStr(p, end, "] args=", 7);
      for (unsigned i = 0; i < c.def->nargs; ++i)
      {
         if (i) p = putStr(p, end, ",", 1);
         p = putNum(p, end, c.a[i]);
      }
      if (c.def->flags & OF_CH) { p = putStr(p, end, " ch=", 4); p = putNum(p, end, size_t((unsigned char)c.ch)); }
      if (c.def->flags & OF_SRC)
      {
         p = putStr(p, end, " src(", 5);
         p = putNum(p, end, c.src.size());
         p = putStr(p, end, ")=[", 3);
         p = putText(p, end, c.src);
         p = putStr(p, end, "]", 1);
      }
      *p = 0;
      ctx.prog->descr(buf);
      if (ctx.verbose) printf("CALL %s\n", buf);
   }
   /// at most 40 characters of a text, unprintable ones as '?'
   static char* putText(char* p, char* end, const std::string& t)
   {
      const size_t n = std::min<size_t>(t.size(), 40);
      for (size_t i = 0; i < n && p < end; ++i) { const unsigned char ch = (unsigned char)t[i]; *p++ = (ch >= 32 && ch < 127) ? char(ch) : '?'; }
      if (t.size() > n) p = putStr(p, end, "...", 3);
      return p;
   }

   // ---------------------------------------------------------------- invariant (C10)
   void checkInvariant()
   {
      const size_t n = fs->length();
      bool bad = false;
      if (n > L) { fail("invariant-length", "length() = " + std::to_string(n) + " > capacity"); bad = true; }
      else if (fs->c_str()[n] != 0) { fail("invariant-nul", "c_str()[length()=" + std::to_string(n) + "] = " + std::to_string((int)(unsigned char)fs->c_str()[n])); bad = true; }
      else if (!nulStored && strlen(fs->c_str()) != n) { fail("invariant-strlen", "strlen = " + std::to_string(strlen(fs->c_str())) + ", length() = " + std::to_string(n)); bad = true; }
      if (!canariesOk()) { fail("canary", "a guard byte next to the object changed"); bad = true; }
      if (bad)
      {
         isBroken = true;
         ctx.out->stat("invariant_failures");
      }
      else if (!ctx.oracle)
         ref.assign(fs->c_str(), n);
   }

   // ---------------------------------------------------------------- oracle helpers (C11)
   static std::string cut(std::string s)
   {
      if (s.size() > L) s.resize(L);
      return s;
   }
   bool judging() const { return ctx.oracle; }
   void undoc(const char* what)
   {
      ctx.out->stat(std::string("undoc.") + what);
   }
   /// after a mutator: compare with the expected content (oracle on and in domain)
   void mutated(bool judged, const std::string& expected)
   {
      if (!ctx.oracle) return;
      const size_t n = std::min(fs->length(), L);
      std::string got(fs->c_str(), n);
      if (judged)
      {
         ++ctx.nJudgedMut;
         if (expected.size() < ref.size() + srcText.size() && expected.size() == L) ++ctx.nTrunc;
         if (got != expected || fs->length() != expected.size())
         {
            fail("content-mismatch", "got '" + shortText(got) + "' (length " + std::to_string(fs->length()) + "), expected '" + shortText(expected) + "'");
            // resynchronise so that one defect does not cascade through the history
            fs->assign(expected);
            if (fs->length() != expected.size() || memcmp(fs->c_str(), expected.data(), expected.size()) != 0) isBroken = true;
            ctx.out->stat("resyncs");
         }
         ref = expected;
      }
      else
         ref = got;
   }
   void retRef(const FS& r)
   {
      if (&r != fs) fail("return-value", "mutator did not return *this");
   }
   template <typename T> void same(const char* what, const T& got, const T& exp)
   {
      if (!ctx.oracle) return;
      ++ctx.nJudgedObs;
      if (!(got == exp))
      {
         std::ostringstream os;
         os << what << ": got " << got << ", expected " << exp;
         fail("value-mismatch", os.str());
      }
   }
   void sameSign(const char* what, int got, int exp)
   {
      if (!ctx.oracle) return;
      ++ctx.nJudgedObs;
      if (sgn(got) != sgn(exp))
         fail("sign-mismatch", std::string(what) + ": got " + std::to_string(got) + ", std::string gives " + std::to_string(exp));
   }
   static std::string posText(size_t p) { return numstr(p); }
   void samePos(const char* what, size_t got, size_t exp)
   {
      if (!ctx.oracle) return;
      ++ctx.nJudgedObs;
      if (got != exp) fail("value-mismatch", std::string(what) + ": got " + numstr(got) + ", std::string gives " + numstr(exp));
   }

   // ---------------------------------------------------------------- source operands
   template <size_t S, typename F> void withFs(const Call& c, F&& f)
   {
      FsBlock<S> b(c.src);
      srcText = c.src.substr(0, S);
      if (!b.holds(srcText))
      {
         ctx.out->viol("setup|source-ctor", "FixedString<" + std::to_string(S) + ">('" + shortText(c.src) + "') holds '" + shortText(std::string(b.f->c_str(), std::min(b.f->length(), S))) + "'");
         return;
      }
      f(static_cast<const FixedString<S>&>(*b.f));
   }
   /// every source kind
   template <typename F> void withSrc(const Call& c, F&& f)
   {
      switch (c.def->sk)
      {
      case SK_CSTR: { CStrBlock b(c.src); srcText = c.src; f(static_cast<const char*>(b.p)); break; }
      case SK_STRING: { StrBlock b(c.src); srcText = c.src; f(static_cast<const std::string&>(*b.s)); break; }
      case SK_FS0: withFs<L>(c, f); break;
      case SK_FS1: withFs<S1>(c, f); break;
      case SK_FS2: withFs<S2>(c, f); break;
      default: break;
      }
   }
   /// std::string and fixed strings
   template <typename F> void withObjSrc(const Call& c, F&& f)
   {
      switch (c.def->sk)
      {
      case SK_STRING: { StrBlock b(c.src); srcText = c.src; f(static_cast<const std::string&>(*b.s)); break; }
      case SK_FS0: withFs<L>(c, f); break;
      case SK_FS1: withFs<S1>(c, f); break;
      case SK_FS2: withFs<S2>(c, f); break;
      default: break;
      }
   }
   /// fixed strings only
   template <typename F> void withFsSrc(const Call& c, F&& f)
   {
      switch (c.def->sk)
      {
      case SK_FS0: withFs<L>(c, f); break;
      case SK_FS1: withFs<S1>(c, f); break;
      case SK_FS2: withFs<S2>(c, f); break;
      default: break;
      }
   }
   /// C string, std::string, fixed string of the same capacity (find family)
   template <typename F> void withSameSrc(const Call& c, F&& f)
   {
      switch (c.def->sk)
      {
      case SK_CSTR: { CStrBlock b(c.src); srcText = c.src; f(static_cast<const char*>(b.p)); break; }
      case SK_STRING: { StrBlock b(c.src); srcText = c.src; f(static_cast<const std::string&>(*b.s)); break; }
      case SK_FS0: withFs<L>(c, f); break;
      default: break;
      }
   }

   typename FS::const_iterator citAt(size_t off) const
   {
      auto it = static_cast<const FS*>(fs)->cbegin();
      it += off;
      return it;
   }
   /// position of an iterator of this string (end() = length)
   size_t posOf(const typename FS::iterator& it)
   {
      if (it == fs->end()) return fs->length();
      return it - fs->begin();
   }
   static size_t repClamp(size_t n) { return std::min(n, L + 1); }

   // ---------------------------------------------------------------- the operations
   void dispatch(const Call& c)
   {
      const size_t a0 = c.a[0], a1 = c.a[1], a2 = c.a[2], a3 = c.a[3];
      const size_t n = ref.size();
      const char ch = c.ch;
      if (ch == 0 && (c.def->flags & OF_CH) && (c.def->flags & OF_MUT)) nulStored = true;
      srcHasNul = (c.def->flags & OF_SRC) && c.src.find('\0') != std::string::npos;
      if (srcHasNul && (c.def->flags & OF_MUT)) nulStored = true;
      expectNoThrow = true;
      srcText.clear();

      switch (c.def->fam)
      {
      // ---------------------------------------------------------- observers
      case F_OBSERVE:
      {
         const FS& k = *fs;
         same("str()", k.str(), ref);
         same("length()", k.length(), n);
         same("empty()", k.empty(), ref.empty());
         same("c_str()", std::string(k.c_str()), std::string(ref.c_str()));
         same("data()==c_str()", k.data() == k.c_str() && fs->data() == k.c_str(), true);
         break;
      }
      case F_AT:
      case F_AT_CONST:
      {
         const bool konst = c.def->fam == F_AT_CONST;
         expectNoThrow = false;
         bool thrown = false;
         char got = 0;
         try
         {
            got = konst ? static_cast<const FS*>(fs)->at(a0) : fs->at(a0);
         }
         catch (const std::out_of_range&)
         {
            thrown = true;
            ctx.out->stat("at_out_of_range");
         }
         if (a0 < n)
         {
            same("at() threw", thrown, false);
            if (!thrown) same("at()", got, ref[a0]);
         }
         else if (a0 == n) undoc("at_length");
         else same("at(idx > length) throws std::out_of_range", thrown, true);
         break;
      }
      case F_INDEX:
      {
         // invalid index: documented undefined behaviour, never generated
         if (a0 >= fs->length()) { ctx.out->stat("skipped_ub"); break; }
         same("operator[]", (*fs)[a0], ref[a0]);
         same("operator[] const", (*static_cast<const FS*>(fs))[a0], ref[a0]);
         break;
      }
      case F_FRONT_BACK:
      {
         const FS& k = *fs;
         const char ef = ref.empty() ? '\0' : ref.front();   // documented: zero character when empty
         const char eb = ref.empty() ? '\0' : ref.back();
         same("front()", fs->front(), ef);
         same("front() const", k.front(), ef);
         same("back()", fs->back(), eb);
         same("back() const", k.back(), eb);
         break;
      }
      case F_SET_CHAR:
      {
         // writes through the references handed out by the class; only valid positions
         if (fs->length() == 0 || ch == 0) { ctx.out->stat("skipped_ub"); break; }
         const size_t i = a0 % fs->length();
         std::string e = ref;
         switch (c.def->sub)
         {
         case 0: fs->front() = ch; if (!e.empty()) e.front() = ch; break;
         case 1: fs->back() = ch; if (!e.empty()) e.back() = ch; break;
         case 2: fs->at(i) = ch; if (i < e.size()) e[i] = ch; break;
         case 3: (*fs)[i] = ch; if (i < e.size()) e[i] = ch; break;
         case 4: fs->data()[i] = ch; if (i < e.size()) e[i] = ch; break;
         case 5: { auto it = fs->begin(); it += i; *it = ch; if (i < e.size()) e[i] = ch; break; }
         default: { auto it = fs->rbegin(); it += i; *it = ch; if (i < e.size()) e[e.size() - 1 - i] = ch; break; }
         }
         mutated(true, e);
         break;
      }

      // ---------------------------------------------------------- construction / assignment
      case F_CTOR_DEFAULT:
      {
         void* m = malloc(sizeof(FS));
         memset(m, 0xA5, sizeof(FS));
         FS* t = new (m) FS;
         checkOther(*t, std::string(), "default constructed");
         t->~FS();
         free(m);
         break;
      }
      case F_CTOR:
         withSrc(c, [&](const auto& s) {
            void* m = malloc(sizeof(FS));
            memset(m, 0xA5, sizeof(FS));
            FS* t = new (m) FS(s);
            checkOther(*t, cut(srcText), "constructed from the source");
            t->~FS();
            free(m);
         });
         break;
      case F_CTOR_MOVE:
      {
         void* m1 = malloc(sizeof(FS));
         FS* from = new (m1) FS(*fs);
         void* m2 = malloc(sizeof(FS));
         memset(m2, 0xA5, sizeof(FS));
         FS* t = new (m2) FS(std::move(*from));
         checkOther(*t, ref, "move constructed");
         {
            // the moved-from object is an argument of the operation: whatever it holds now, it must be a well-formed string
            const size_t n = from->length();
            if (n > L) fail("invariant-length", "moved-from source: length() = " + std::to_string(n));
            else if (from->c_str()[n] != 0) fail("invariant-nul", "moved-from source: no NUL at length() = " + std::to_string(n));
            else if (!nulStored && strlen(from->c_str()) != n)
               fail("invariant-strlen", "moved-from source: strlen " + std::to_string(strlen(from->c_str())) + " != length() " + std::to_string(n));
         }
         t->~FS();
         free(m2);
         from->~FS();
         free(m1);
         break;
      }
      case F_ASSIGN:
         withSrc(c, [&](const auto& s) { retRef(fs->assign(s)); mutated(true, cut(srcText)); });
         break;
      case F_OPASSIGN:
         withSrc(c, [&](const auto& s) { retRef(*fs = s); mutated(true, cut(srcText)); });
         break;
      case F_CLEAR:
         fs->clear();
         mutated(true, std::string());
         break;

      // ---------------------------------------------------------- insert
      case F_INSERT_CNT_CH:
      {
         std::string e = ref;
         const bool dom = a0 <= n;
         if (dom && judging()) e.insert(a0, repClamp(a1), ch);
         retRef(fs->insert(a0, a1, ch));
         mutated(dom, cut(e));
         break;
      }
      case F_INSERT_CSTR_CNT:
      {
         // (pointer, count): the array has min(count, L+1) readable characters at least
         CStrBlock b(c.src, std::min(a1, L + 1));
         srcText = c.src;
         if (a1 > c.src.size()) nulStored = true;   // the array [str, str+count) includes the terminator
         std::string e = ref;
         const bool dom = a0 <= n && a1 <= c.src.size();
         if (dom && judging()) e.insert(a0, c.src.c_str(), a1);
         retRef(fs->insert(a0, static_cast<const char*>(b.p), a1));
         mutated(dom, cut(e));
         break;
      }
      case F_INSERT:
         withSrc(c, [&](const auto& s) {
            std::string e = ref;
            const bool dom = a0 <= n;
            if (dom && judging()) e.insert(a0, srcText);
            retRef(fs->insert(a0, s));
            mutated(dom, cut(e));
         });
         break;
      case F_INSERT_PART:
      case F_INSERT_PART_D:
         withObjSrc(c, [&](const auto& s) {
            const bool dflt = c.def->fam == F_INSERT_PART_D;
            std::string e = ref;
            const bool dom = a0 <= n && a1 <= srcText.size();
            if (dom && judging()) e.insert(a0, srcText, a1, dflt ? NPOS : a2);
            if (dflt) retRef(fs->insert(a0, s, a1));
            else retRef(fs->insert(a0, s, a1, a2));
            mutated(dom, cut(e));
         });
         break;
      case F_INSERT_IT_CH:
      case F_INSERT_IT_CNT_CH:
      case F_INSERT_IT_ILIST:
      {
         const size_t k = std::min(a0, n);   // offset -> iterator (>= length: cend())
         const auto pos = citAt(a0);
         std::string e = ref;
         // cend() is treated as "invalid position" by the class (nothing inserted, end() returned):
         // not what std::string does, not spelled out in the header either -> recorded, not judged
         bool dom = k < n;
         size_t inserted = 0;
         typename FS::iterator r = fs->end();
         if (c.def->fam == F_INSERT_IT_CH)
         {
            if (dom && judging()) e.insert(k, 1, ch);
            inserted = 1;
            r = fs->insert(pos, ch);
         }
         else if (c.def->fam == F_INSERT_IT_CNT_CH)
         {
            if (dom && judging()) e.insert(k, repClamp(a1), ch);
            inserted = a1;
            r = fs->insert(pos, a1, ch);
         }
         else
         {
            IlBlock il(c.src);
            srcText = c.src;
            if (dom && judging()) e.insert(k, c.src);
            inserted = c.src.size();
            r = fs->insert(pos, il.il);
         }
         if (!dom) undoc("insert_at_cend");
         mutated(dom, cut(e));
         if (dom && judging() && inserted > 0 && k < fs->length())
            same("returned iterator position", posOf(r), k);
         break;
      }

      // ---------------------------------------------------------- erase / push / pop
      case F_ERASE:
      case F_ERASE_D0:
      case F_ERASE_D1:
      {
         std::string e = ref;
         const size_t idx = c.def->fam == F_ERASE_D0 ? 0 : a0;
         const size_t cnt = c.def->fam == F_ERASE ? a1 : NPOS;
         const bool dom = idx <= n;
         if (dom && judging()) e.erase(idx, cnt);
         if (c.def->fam == F_ERASE_D0) retRef(fs->erase());
         else if (c.def->fam == F_ERASE_D1) retRef(fs->erase(a0));
         else retRef(fs->erase(a0, a1));
         mutated(dom, e);
         break;
      }
      case F_ERASE_IT:
      {
         const size_t k = std::min(a0, n);
         const bool dom = k < n;
         std::string e = ref;
         if (dom && judging()) e.erase(k, 1);
         auto r = fs->erase(citAt(a0));
         if (!dom)
         {
            // documented: invalid position -> nothing erased, end() returned
            if (judging()) { same("erase(cend()) returns end()", r == fs->end(), true); }
            mutated(true, ref);
         }
         else
         {
            mutated(true, e);
            if (judging()) same("returned iterator position", posOf(r), std::min(k, e.size()));
         }
         break;
      }
      case F_ERASE_IT_IT:
      {
         const size_t k1 = std::min(a0, n), k2 = std::min(a1, n);
         std::string e = ref;
         // std::string domain: first <= last; first == last is an empty range (nothing erased;
         // the class returns end() for it, which is documented as "invalid")
         const bool dom = k1 <= k2;
         if (dom && judging()) e.erase(k1, k2 - k1);
         auto r = fs->erase(citAt(a0), citAt(a1));
         mutated(dom, e);
         if (dom && judging() && k1 < k2) same("returned iterator position", posOf(r), std::min(k1, e.size()));
         if (!dom) undoc("erase_first_after_last");
         break;
      }
      case F_PUSH_BACK:
      {
         std::string e = ref;
         e.push_back(ch);
         retRef(fs->push_back(ch));
         mutated(true, cut(e));
         break;
      }
      case F_POP_BACK:
      {
         std::string e = ref;
         const bool dom = !e.empty();
         if (dom) e.pop_back();
         else undoc("pop_back_on_empty");
         retRef(fs->pop_back());
         mutated(dom, e);
         break;
      }

      // ---------------------------------------------------------- append
      case F_APPEND_CNT_CH:
      {
         std::string e = ref;
         if (judging()) e.append(repClamp(a0), ch);
         retRef(fs->append(a0, ch));
         mutated(true, cut(e));
         break;
      }
      case F_APPEND:
         withSrc(c, [&](const auto& s) {
            std::string e = ref + srcText;
            retRef(fs->append(s));
            mutated(true, cut(e));
         });
         break;
      case F_PLUSEQ:
         withSrc(c, [&](const auto& s) {
            std::string e = ref + srcText;
            retRef(*fs += s);
            mutated(true, cut(e));
         });
         break;
      case F_PLUSEQ_CH:
      {
         std::string e = ref;
         e.push_back(ch);
         retRef(*fs += ch);
         mutated(true, cut(e));
         break;
      }
      case F_APPEND_PART:
      case F_APPEND_PART_D:
         withObjSrc(c, [&](const auto& s) {
            const bool dflt = c.def->fam == F_APPEND_PART_D;
            std::string e = ref;
            const bool dom = a0 <= srcText.size();
            if (dom && judging()) e.append(srcText, a0, dflt ? NPOS : a1);
            if (dflt) retRef(fs->append(s, a0));
            else retRef(fs->append(s, a0, a1));
            mutated(dom, cut(e));
         });
         break;
      case F_APPEND_CSTR_CNT:
      {
         CStrBlock b(c.src);
         srcText = c.src;
         std::string e = ref;
         const bool dom = a0 <= c.src.size();
         if (dom && judging()) e.append(c.src.c_str(), a0);
         retRef(fs->append(static_cast<const char*>(b.p), a0));
         mutated(dom, cut(e));
         break;
      }
      case F_APPEND_IT_IT:
      {
         // range of another fixed string of the same type; only valid ranges (first <= last)
         FsBlock<L> b(c.src);
         srcText = c.src.substr(0, L);
         if (!b.holds(srcText)) break;
         size_t s1 = std::min(a0, srcText.size()), s2 = std::min(a1, srcText.size());
         if (s1 > s2) std::swap(s1, s2);
         auto first = static_cast<const FS*>(b.f)->cbegin();
         first += s1;
         auto last = static_cast<const FS*>(b.f)->cbegin();
         last += s2;
         std::string e = ref;
         e.append(srcText, s1, s2 - s1);
         retRef(fs->append(first, last));
         mutated(true, cut(e));
         break;
      }
      case F_SPRINTF:
      {
         CStrBlock b(c.src);
         srcText = c.src;
         const int num = int(a0 % 2000000) - 1000000;
         const int width = int(a1 % (2 * L + 40));
         std::vector<char> big(2 * c.src.size() + 2 * L + 128);
         int en = 0;
         switch (c.def->sub)
         {
         case 0: en = snprintf(big.data(), big.size(), "%s", b.p); retRef(fs->sprintf("%s", b.p)); break;
         case 1: en = snprintf(big.data(), big.size(), "%d:%s", num, b.p); retRef(fs->sprintf("%d:%s", num, b.p)); break;
         case 2: en = snprintf(big.data(), big.size(), "%*d", width, num); retRef(fs->sprintf("%*d", width, num)); break;
         // conversion error inside vsnprintf (a wide character that the "C" locale cannot represent): the formatter fails
         // after it has written the first characters; the string must stay well-formed (content not judged)
         case 4: en = snprintf(big.data(), big.size(), "abc%lc", (wint_t)0x20ac); retRef(fs->sprintf("abc%lc", (wint_t)0x20ac)); break;
         case 5: en = snprintf(big.data(), big.size(), "%ls", L"xy\u20ac"); retRef(fs->sprintf("%ls", L"xy\u20ac")); break;
         default: en = snprintf(big.data(), big.size(), "[%s|%s]", b.p, b.p); retRef(fs->sprintf("[%s|%s]", b.p, b.p)); break;
         }
         mutated(en >= 0 && size_t(en) < big.size(), cut(std::string(big.data(), size_t(std::max(en, 0)))));
         break;
      }

      // ---------------------------------------------------------- compare & co
      case F_COMPARE:
         withSrc(c, [&](const auto& s) { sameSign("compare(str)", fs->compare(s), ref.compare(srcText)); });
         break;
      case F_COMPARE_P:
         withSrc(c, [&](const auto& s) {
            const int got = fs->compare(a0, a1, s);
            if (a0 <= n) sameSign("compare(pos,count,str)", got, ref.compare(a0, a1, srcText));
            else ctx.out->stat("out_of_domain");
         });
         break;
      case F_COMPARE_PP:
         withObjSrc(c, [&](const auto& s) {
            const int got = fs->compare(a0, a1, s, a2, a3);
            if (a0 <= n && a2 <= srcText.size()) sameSign("compare(pos1,count1,str,pos2,count2)", got, ref.compare(a0, a1, srcText, a2, a3));
            else ctx.out->stat("out_of_domain");
         });
         break;
      case F_COMPARE_P_CSTR_CNT:
      {
         CStrBlock b(c.src);
         srcText = c.src;
         const int got = fs->compare(a0, a1, static_cast<const char*>(b.p), a2);
         if (a0 <= n && a2 <= c.src.size()) sameSign("compare(pos1,count1,cstr,count2)", got, ref.compare(a0, a1, c.src.c_str(), a2));
         else ctx.out->stat("out_of_domain");
         break;
      }
      case F_STARTS:
         withSrc(c, [&](const auto& s) {
            same("starts_with", fs->starts_with(s), srcText.size() <= n && ref.compare(0, srcText.size(), srcText) == 0);
         });
         break;
      case F_STARTS_CH:
         same("starts_with(ch)", fs->starts_with(ch), !ref.empty() && ref.front() == ch);
         break;
      case F_ENDS:
         withSrc(c, [&](const auto& s) {
            same("ends_with", fs->ends_with(s), srcText.size() <= n && ref.compare(n - srcText.size(), srcText.size(), srcText) == 0);
         });
         break;
      case F_ENDS_CH:
         same("ends_with(ch)", fs->ends_with(ch), !ref.empty() && ref.back() == ch);
         break;
      case F_CONTAINS:
         withSrc(c, [&](const auto& s) {
            const bool got = fs->contains(s);
            if (srcText.empty()) undoc("contains_empty_string");
            else same("contains", got, ref.find(srcText) != NPOS);
         });
         break;
      case F_CONTAINS_CH:
         if (ch == 0) { ctx.out->stat("skipped_nul"); break; }
         same("contains(ch)", fs->contains(ch), ref.find(ch) != NPOS);
         break;

      // ---------------------------------------------------------- replace
      case F_REPLACE:
         withSrc(c, [&](const auto& s) {
            std::string e = ref;
            const bool dom = a0 <= n;
            if (dom && judging()) e.replace(a0, a1, srcText);
            retRef(fs->replace(a0, a1, s));
            mutated(dom, cut(e));
         });
         break;
      case F_REPLACE_PP:
      case F_REPLACE_PP_D:
         withObjSrc(c, [&](const auto& s) {
            const bool dflt = c.def->fam == F_REPLACE_PP_D;
            std::string e = ref;
            const bool dom = a0 <= n && a2 <= srcText.size();
            if (dom && judging()) e.replace(a0, a1, srcText, a2, dflt ? NPOS : a3);
            if (dflt) retRef(fs->replace(a0, a1, s, a2));
            else retRef(fs->replace(a0, a1, s, a2, a3));
            mutated(dom, cut(e));
         });
         break;
      case F_REPLACE_CSTR_CNT:
      {
         CStrBlock b(c.src);
         srcText = c.src;
         std::string e = ref;
         const bool dom = a0 <= n && a2 <= c.src.size();
         if (dom && judging()) e.replace(a0, a1, c.src.c_str(), a2);
         retRef(fs->replace(a0, a1, static_cast<const char*>(b.p), a2));
         mutated(dom, cut(e));
         break;
      }
      case F_REPLACE_CNT_CH:
      {
         std::string e = ref;
         const bool dom = a0 <= n;
         if (dom && judging()) e.replace(a0, a1, repClamp(a2), ch);
         retRef(fs->replace(a0, a1, a2, ch));
         mutated(dom, cut(e));
         break;
      }
      case F_REPLACE_IT_FSIT:
      case F_REPLACE_IT_STRIT:
      case F_REPLACE_IT_CSTR_CNT:
      case F_REPLACE_IT_CSTR:
      case F_REPLACE_IT_CNT_CH:
      case F_REPLACE_IT_ILIST:
         replaceByIterators(c);
         break;

      // ---------------------------------------------------------- substr / copy / swap
      case F_SUBSTR:
      case F_SUBSTR_D:
      {
         const bool dflt = c.def->fam == F_SUBSTR_D;
         const std::string got = dflt ? fs->substr(a0) : fs->substr(a0, a1);
         if (a0 <= n) same("substr", got, ref.substr(a0, dflt ? NPOS : a1));
         else ctx.out->stat("out_of_domain");
         break;
      }
      case F_COPY:
      case F_COPY_D:
      {
         const bool dflt = c.def->fam == F_COPY_D;
         const size_t cnt = a0, pos = dflt ? 0 : a1;
         // output buffer: exactly the number of characters a correct copy() delivers
         const size_t want = pos < n ? std::min(cnt, n - pos) : 0;
         char* dest = static_cast<char*>(malloc(want));
         if (want) memset(dest, 0x5A, want);
         const size_t got = dflt ? fs->copy(dest, cnt) : fs->copy(dest, cnt, pos);
         if (pos <= n)
         {
            same("copy() result", got, want);
            if (judging() && got == want && want && memcmp(dest, ref.data() + pos, want) != 0)
               fail("value-mismatch", "copy() delivered '" + shortText(std::string(dest, want)) + "'");
         }
         else ctx.out->stat("out_of_domain");
         free(dest);
         break;
      }
      case F_SWAP:
      {
         void* m = malloc(sizeof(FS));
         memset(m, 0xA5, sizeof(FS));
         FS* o = new (m) FS;
         const std::string otext = c.src.substr(0, L);
         if (c.a[1] & 1) { o->assign(std::string(L, 'Y')); o->clear(); }
         o->assign(otext);
         const std::string mine = ref;
         if (c.a[0] & 1) o->swap(*fs);
         else fs->swap(*o);
         checkOther(*o, mine, "the other operand of swap");
         srcText = otext;
         mutated(true, otext);
         o->~FS();
         free(m);
         break;
      }

      // ---------------------------------------------------------- search family
      case F_SEARCH:
      case F_SEARCH_D:
         withSameSrc(c, [&](const auto& s) {
            const bool dflt = c.def->fam == F_SEARCH_D;
            const int w = c.def->sub;
            const size_t got = dflt ? libSearchD(w, s) : libSearch(w, s, a0);
            if (srcText.empty()) undoc("search_for_empty_string");
            else if (!dflt && a0 >= n) undoc("search_pos_ge_length");
            else samePos(SEARCH_NAMES[w], got, refSearch(w, srcText, dflt ? (w == 0 || w == 2 || w == 3 ? 0 : NPOS) : a0));
         });
         break;
      case F_SEARCH_CSTR_CNT:
      {
         const int w = c.def->sub;
         // find(ptr, pos, count) never needs more than length() <= L characters of the array, rfind clamps
         // the count to the C string, find_*_of read the whole array [0, count): it really has that size
         if (w >= 2 && a1 > std::min<size_t>(8 * L + 64, 4200)) { ctx.out->stat("skipped_unallocatable_array"); break; }
         CStrBlock b(c.src, w == 1 ? 0 : (w == 0 ? std::min(a1, L + 1) : a1));
         srcText = c.src;
         const size_t got = libSearchN(w, static_cast<const char*>(b.p), a0, a1);
         if (a1 == 0 || c.src.empty()) undoc("search_for_empty_string");
         else if (a0 >= n) undoc("search_pos_ge_length");
         else if (a1 > c.src.size()) ctx.out->stat("out_of_domain");
         else samePos(SEARCH_NAMES[w], got, refSearchN(w, c.src.c_str(), a0, a1));
         break;
      }
      case F_SEARCH_CH:
      case F_SEARCH_CH_D:
      {
         const int w = c.def->sub;
         const bool dflt = c.def->fam == F_SEARCH_CH_D;
         const size_t got = dflt ? libSearchChD(w, ch) : libSearchCh(w, ch, a0);
         if (ch == 0) { ctx.out->stat("skipped_nul"); break; }
         if (!dflt && a0 >= n) undoc("search_pos_ge_length");
         else samePos(SEARCH_NAMES[w], got, refSearchCh(w, ch, dflt ? (w == 0 || w == 2 || w == 3 ? 0 : NPOS) : a0));
         break;
      }

      // ---------------------------------------------------------- equality, streaming
      case F_EQ:
         withFsSrc(c, [&](const auto& s) {
            const bool eq = *static_cast<const FS*>(fs) == s;
            const bool ne = *static_cast<const FS*>(fs) != s;
            const bool eq2 = s == *static_cast<const FS*>(fs);
            const bool ne2 = s != *static_cast<const FS*>(fs);
            if (judging())
            {
               ctx.nJudgedObs += 2;
               if (eq == ne || eq2 == ne2)
                  fail("eq-ne-not-complementary", "(a==b)=" + std::to_string(eq) + " (a!=b)=" + std::to_string(ne) + " (b==a)=" + std::to_string(eq2) + " (b!=a)=" + std::to_string(ne2));
               if (eq != (ref == srcText) || eq2 != eq)
                  fail("value-mismatch", "operator== gives " + std::to_string(eq) + "/" + std::to_string(eq2));
            }
         });
         break;
      case F_STREAM:
      {
         std::ostringstream os;
         os << *static_cast<const FS*>(fs);
         if (!nulStored) same("operator<<", os.str(), ref);
         break;
      }

      // ---------------------------------------------------------- iterators
      case F_ITER_FWD: iterateForward(); break;
      case F_ITER_REV: iterateReverse(); break;
      case F_ITER_ARITH: iteratorArithmetic(a0, a1); break;
      case F_ITER_EDGE: iteratorEdges(c.def->sub, a0); break;
      default: break;
      }
   }

   /// invariant + content of a second object (constructed temporaries, swap partner)
   void checkOther(const FS& t, const std::string& expected, const char* what)
   {
      const size_t n = t.length();
      if (n > L) { fail("invariant-length", std::string(what) + ": length() = " + std::to_string(n)); return; }
      if (t.c_str()[n] != 0) { fail("invariant-nul", std::string(what) + ": no NUL at length() = " + std::to_string(n)); return; }
      if (!nulStored && !srcHasNul && strlen(t.c_str()) != n) { fail("invariant-strlen", std::string(what) + ": strlen " + std::to_string(strlen(t.c_str())) + " != length() " + std::to_string(n)); return; }
      if (ctx.oracle)
      {
         ++ctx.nJudgedMut;
         if (std::string(t.c_str(), n) != expected)
            fail("content-mismatch", std::string(what) + " holds '" + shortText(std::string(t.c_str(), n)) + "', expected '" + shortText(expected) + "'");
      }
   }

   void replaceByIterators(const Call& c)
   {
      const size_t n = ref.size();
      const size_t k1 = std::min(c.a[0], n), k2 = std::min(c.a[1], n);
      const auto first = citAt(c.a[0]), last = citAt(c.a[1]);
      std::string e = ref;
      // judged domain: non-empty range first < last inside the string and a non-empty replacement;
      // the class documents nothing for the other combinations (the pinned unit test expects "no
      // change" for empty ranges and empty replacements) -> recorded, not judged
      bool dom = k1 < k2;
      std::string repl;
      switch (c.def->fam)
      {
      case F_REPLACE_IT_FSIT:
      {
         FsBlock<L> b(c.src);
         srcText = c.src.substr(0, L);
         if (!b.holds(srcText)) return;
         size_t s1 = std::min(c.a[2], srcText.size()), s2 = std::min(c.a[3], srcText.size());
         if (s1 > s2) std::swap(s1, s2);
         auto f2 = b.f->begin();
         f2 += s1;
         auto l2 = b.f->begin();
         l2 += s2;
         repl = srcText.substr(s1, s2 - s1);
         dom = dom && !repl.empty();
         if (dom && judging()) e.replace(k1, k2 - k1, repl);
         retRef(fs->replace(first, last, f2, l2));
         break;
      }
      case F_REPLACE_IT_STRIT:
      {
         StrBlock b(c.src);
         srcText = c.src;
         size_t s1 = std::min(c.a[2], srcText.size()), s2 = std::min(c.a[3], srcText.size());
         if (s1 > s2) std::swap(s1, s2);
         repl = srcText.substr(s1, s2 - s1);
         dom = dom && !repl.empty();
         if (dom && judging()) e.replace(k1, k2 - k1, repl);
         retRef(fs->replace(first, last, b.s->begin() + s1, b.s->begin() + s2));
         break;
      }
      case F_REPLACE_IT_CSTR_CNT:
      {
         CStrBlock b(c.src, std::min(c.a[2], L + 1));
         srcText = c.src;
         if (c.a[2] > c.src.size()) nulStored = true;   // the array [str, str+count2) includes the terminator
         dom = dom && c.a[2] <= c.src.size() && c.a[2] > 0;
         if (dom && judging()) e.replace(k1, k2 - k1, c.src.c_str(), c.a[2]);
         retRef(fs->replace(first, last, static_cast<const char*>(b.p), c.a[2]));
         break;
      }
      case F_REPLACE_IT_CSTR:
      {
         CStrBlock b(c.src);
         srcText = c.src;
         dom = dom && !c.src.empty();
         if (dom && judging()) e.replace(k1, k2 - k1, c.src);
         retRef(fs->replace(first, last, static_cast<const char*>(b.p)));
         break;
      }
      case F_REPLACE_IT_CNT_CH:
      {
         dom = dom && c.a[2] > 0;
         if (dom && judging()) e.replace(k1, k2 - k1, repClamp(c.a[2]), c.ch);
         retRef(fs->replace(first, last, c.a[2], c.ch));
         break;
      }
      default:
      {
         IlBlock il(c.src);
         srcText = c.src;
         dom = dom && !c.src.empty();
         if (dom && judging()) e.replace(k1, k2 - k1, c.src);
         retRef(fs->replace(first, last, il.il));
         break;
      }
      }
      if (!dom) undoc("replace_iterators_empty_range_or_replacement");
      mutated(dom, cut(e));
   }

   // ---- search helpers
   template <typename T> size_t libSearch(int w, const T& s, size_t pos)
   {
      const FS& k = *fs;
      switch (w)
      {
      case 0: return k.find(s, pos);
      case 1: return k.rfind(s, pos);
      case 2: return k.find_first_of(s, pos);
      case 3: return k.find_first_not_of(s, pos);
      case 4: return k.find_last_of(s, pos);
      default: return k.find_last_not_of(s, pos);
      }
   }
   template <typename T> size_t libSearchD(int w, const T& s)
   {
      const FS& k = *fs;
      switch (w)
      {
      case 0: return k.find(s);
      case 1: return k.rfind(s);
      case 2: return k.find_first_of(s);
      case 3: return k.find_first_not_of(s);
      case 4: return k.find_last_of(s);
      default: return k.find_last_not_of(s);
      }
   }
   size_t libSearchN(int w, const char* p, size_t pos, size_t cnt)
   {
      const FS& k = *fs;
      switch (w)
      {
      case 0: return k.find(p, pos, cnt);
      case 1: return k.rfind(p, pos, cnt);
      case 2: return k.find_first_of(p, pos, cnt);
      case 3: return k.find_first_not_of(p, pos, cnt);
      case 4: return k.find_last_of(p, pos, cnt);
      default: return k.find_last_not_of(p, pos, cnt);
      }
   }
   size_t libSearchCh(int w, char ch, size_t pos)
   {
      const FS& k = *fs;
      switch (w)
      {
      case 0: return k.find(ch, pos);
      case 1: return k.rfind(ch, pos);
      case 2: return k.find_first_of(ch, pos);
      case 3: return k.find_first_not_of(ch, pos);
      case 4: return k.find_last_of(ch, pos);
      default: return k.find_last_not_of(ch, pos);
      }
   }
   size_t libSearchChD(int w, char ch)
   {
      const FS& k = *fs;
      switch (w)
      {
      case 0: return k.find(ch);
      case 1: return k.rfind(ch);
      case 2: return k.find_first_of(ch);
      case 3: return k.find_first_not_of(ch);
      case 4: return k.find_last_of(ch);
      default: return k.find_last_not_of(ch);
      }
   }
   size_t refSearch(int w, const std::string& s, size_t pos) const
   {
      switch (w)
      {
      case 0: return ref.find(s, pos);
      case 1: return ref.rfind(s, pos);
      case 2: return ref.find_first_of(s, pos);
      case 3: return ref.find_first_not_of(s, pos);
      case 4: return ref.find_last_of(s, pos);
      default: return ref.find_last_not_of(s, pos);
      }
   }
   size_t refSearchN(int w, const char* p, size_t pos, size_t cnt) const
   {
      switch (w)
      {
      case 0: return ref.find(p, pos, cnt);
      case 1: return ref.rfind(p, pos, cnt);
      case 2: return ref.find_first_of(p, pos, cnt);
      case 3: return ref.find_first_not_of(p, pos, cnt);
      case 4: return ref.find_last_of(p, pos, cnt);
      default: return ref.find_last_not_of(p, pos, cnt);
      }
   }
   size_t refSearchCh(int w, char ch, size_t pos) const
   {
      switch (w)
      {
      case 0: return ref.find(ch, pos);
      case 1: return ref.rfind(ch, pos);
      case 2: return ref.find_first_of(ch, pos);
      case 3: return ref.find_first_not_of(ch, pos);
      case 4: return ref.find_last_of(ch, pos);
      default: return ref.find_last_not_of(ch, pos);
      }
   }

   // ---- iterators
   void iterateForward()
   {
      expectNoThrow = true;
      const size_t n = ref.size();
      std::string a, b, d;
      size_t guard = 0;
      for (auto it = fs->begin(); it != fs->end() && guard <= L + 2; ++it, ++guard) a += *it;
      guard = 0;
      const FS& k = *fs;
      for (auto it = k.begin(); it != k.end() && guard <= L + 2; it++, ++guard) b += *it;
      guard = 0;
      for (auto it = k.cbegin(); it != k.cend() && guard <= L + 2; ++it, ++guard) d += *it;
      same("begin()..end()", a, ref);
      same("const begin()..end()", b, ref);
      same("cbegin()..cend()", d, ref);
      same("end() - begin()", size_t(fs->end() - fs->begin()), n);
      same("cend() - cbegin()", size_t(k.cend() - k.cbegin()), n);
      same("begin() == end() iff empty", fs->begin() == fs->end(), ref.empty());
   }
   void iterateReverse()
   {
      expectNoThrow = true;
      const size_t n = ref.size();
      const std::string rev(ref.rbegin(), ref.rend());
      std::string a, b, d;
      size_t guard = 0;
      for (auto it = fs->rbegin(); it != fs->rend() && guard <= L + 2; ++it, ++guard) a += *it;
      guard = 0;
      const FS& k = *fs;
      for (auto it = k.rbegin(); it != k.rend() && guard <= L + 2; it++, ++guard) b += *it;
      guard = 0;
      for (auto it = k.crbegin(); it != k.crend() && guard <= L + 2; ++it, ++guard) d += *it;
      same("rbegin()..rend()", a, rev);
      same("const rbegin()..rend()", b, rev);
      same("crbegin()..crend()", d, rev);
      same("rend() - rbegin()", size_t(fs->rend() - fs->rbegin()), n);
      same("rbegin() == rend() iff empty", fs->rbegin() == fs->rend(), ref.empty());
   }
   /// random access inside the string: p1 <= p2 < length
   void iteratorArithmetic(size_t x, size_t y)
   {
      const size_t n = ref.size();
      if (n == 0) { ctx.out->stat("skipped_empty"); return; }
      size_t p1 = x % n, p2 = y % n;
      if (p1 > p2) std::swap(p1, p2);
      const FS& k = *fs;
      auto i1 = k.cbegin();
      i1 += p1;
      auto i2 = k.cbegin();
      i2 += p2;
      same("*(begin()+p)", *i1, ref[p1]);
      same("it[k]", i1[p2 - p1], ref[p2]);
      same("it2 - it1", size_t(i2 - i1), p2 - p1);
      same("cend() - it", size_t(k.cend() - i1), n - p1);
      same("it1 < it2", i1 < i2, p1 < p2);
      same("it1 <= it2", i1 <= i2, true);
      same("it2 > it1", i2 > i1, p1 < p2);
      same("it2 >= it1", i2 >= i1, true);
      same("it1 == it2", i1 == i2, p1 == p2);
      same("it1 != it2", i1 != i2, p1 != p2);
      same("it < cend()", i1 < k.cend(), true);
      same("iterator length()", i1.length(), n);
      auto j = i2;
      j -= (p2 - p1);
      same("it -= k", j == i1, true);
      auto post = i1++;
      same("it++ returns the old position", *post, ref[p1]);
      if (p1 + 1 < n) same("it++ advances", *i1, ref[p1 + 1]);
      else same("it++ from the last character reaches cend()", i1 == k.cend(), true);
      if (p2 > 0)
      {
         auto pre = --i2;
         same("--it", *pre, ref[p2 - 1]);
      }
      // reverse iterators
      auto r1 = k.crbegin();
      r1 += p1;
      auto r2 = k.crbegin();
      r2 += p2;
      same("*(rbegin()+p)", *r1, ref[n - 1 - p1]);
      same("rit[k]", r1[p2 - p1], ref[n - 1 - p2]);
      same("rit2 - rit1", size_t(r2 - r1), p2 - p1);
      same("crend() - rit", size_t(k.crend() - r1), n - p1);
      same("rit1 < rit2", r1 < r2, p1 < p2);
      same("rit2 >= rit1", r2 >= r1, true);
      same("rit1 <= rit2", r1 <= r2, true);
      same("rit2 > rit1", r2 > r1, p1 < p2);
      same("rit1 != rit2", r1 != r2, p1 != p2);
      same("reverse iterator length()", r1.length(), n);
      auto rj = r2;
      rj -= (p2 - p1);
      same("rit -= k", rj == r1, true);
      auto rpost = r1++;
      same("rit++ returns the old position", *rpost, ref[n - 1 - p1]);
      if (p1 + 1 < n) same("rit++ advances", *r1, ref[n - 2 - p1]);
      else same("rit++ from the first character reaches crend()", r1 == k.crend(), true);
   }
   /// sequences at and beyond the ends (C10: must stay memory safe; exceptions are fine)
   void iteratorEdges(int sub, size_t v)
   {
      expectNoThrow = false;
      volatile char sink = 0;
      const FS& k = *fs;
      switch (sub)
      {
      case 0: { auto it = fs->end(); --it; sink = *it; break; }
      case 1: { auto it = k.cend(); it--; sink = *it; break; }
      case 2: { auto it = fs->rend(); ++it; sink = *it; break; }
      case 3: { auto it = k.crend(); it++; sink = *it; break; }
      case 4: { auto it = fs->rend(); --it; sink = *it; break; }
      case 5: { auto it = fs->end(); ++it; sink = *it; break; }
      case 6: { typename FS::iterator it; sink = *it; break; }
      case 7: { typename FS::const_reverse_iterator it; sink = *it; break; }
      case 8: { auto it = fs->begin(); it += v; sink = *it; break; }
      case 9: { auto it = fs->begin(); it -= v; sink = *it; break; }
      case 10: { auto it = fs->rbegin(); it += v; sink = *it; break; }
      case 11: { auto it = fs->rbegin(); it -= v; sink = *it; break; }
      case 12: { auto it = fs->begin(); it += v; it -= v; it += 1; sink = *it; break; }
      case 13: { if (fs->empty()) break; auto it = fs->rbegin(); sink = it[v]; break; }   // throws std::range_error beyond the begin
      case 14: { auto it = fs->begin(); --it; --it; sink = *it; break; }
      case 15: { auto it = fs->rbegin(); --it; --it; sink = *it; break; }
      case 16: { auto d = k.cbegin() - k.cend(); sink = char(d); break; }
      case 17: { auto e = k.crbegin() - k.crend(); sink = char(e); typename FS::const_reverse_iterator it; auto d = it - k.crbegin(); sink = char(d); break; }
      case 18: { typename FS::const_iterator it; auto d = it - k.cbegin(); sink = char(d); break; }
      case 19: { typename FS::iterator it(fs, v); sink = char(it.length()); sink = *it; break; }                 // (object, position) constructor
      case 20: { typename FS::const_iterator it(nullptr, v); sink = char(it.length()); sink = *it; break; }
      case 21: { typename FS::reverse_iterator it(fs, v); sink = char(it.length()); sink = *it; break; }
      case 22: { typename FS::const_reverse_iterator it(nullptr, v); sink = char(it.length()); sink = *it; break; }
      // writes through iterators that were moved to / beyond the ends: refused or inside the content, never the terminator
      case 23: { auto it = fs->rbegin(); it -= v; *it = 'w'; break; }
      case 24: { auto it = fs->begin(); it += v; *it = 'w'; break; }
      case 25: { auto it = fs->end(); it -= v; *it = 'w'; break; }
      case 26: { auto it = fs->rend(); it -= v; *it = 'w'; break; }
      case 27: { auto it = fs->rbegin(); it += v; *it = 'w'; break; }
      case 28: { auto it = fs->begin(); it -= v; *it = 'w'; break; }
      case 29: { auto it = fs->rbegin(); for (size_t i = 0; i <= v % 4; ++i) --it; *it = 'w'; break; }
      case 30: { auto it = fs->end(); for (size_t i = 0; i < v % 4; ++i) it++; *it = 'w'; break; }
      case 31: { auto it = fs->rbegin(); it += v; it -= v; it -= 1; *it = 'w'; break; }
      default: { auto it = fs->begin(); it += v; it += 1; *it = 'w'; break; }
      }
      (void)sink;
   }
};

Session* make_session_g01(size_t L, Ctx& ctx);
Session* make_session_g02(size_t L, Ctx& ctx);
Session* make_session_g03(size_t L, Ctx& ctx);
Session* make_session_g04(size_t L, Ctx& ctx);
Session* make_session_g05(size_t L, Ctx& ctx);
Session* make_session_g06(size_t L, Ctx& ctx);
Session* make_session_g07(size_t L, Ctx& ctx);
Session* make_session_g08(size_t L, Ctx& ctx);
Session* make_session_g09(size_t L, Ctx& ctx);
Session* make_session_g10(size_t L, Ctx& ctx);

}   // namespace fsv
