// C13 - integer-to-string conversions are exact for every integer.
//
// oracle: independent decimal reference (digit loop / odometer), reference grouping derived
// from it; buffer variants run on exact-size heap blocks (ASan) and inside canary-filled
// buffers (all flavours); round trip through stringTo<T>.
#include "vh.hpp"

#include <limits>
#include <stdexcept>
#include <atomic>
#include <thread>
#include <type_traits>

#include "celma/format/grouped_int2string.hpp"
#include "celma/format/int2string.hpp"
#include "celma/format/string_to.hpp"

using namespace celma::format;

static vh::Out out;
static vh::Progress prog;
static bool verbose = false;

static const char GROUP_CHARS[] = { '\'', ',', '.', ' ', '_' };

template <typename T> const char* tname();
template <> const char* tname<int8_t>() { return "int8"; }
template <> const char* tname<uint8_t>() { return "uint8"; }
template <> const char* tname<int16_t>() { return "int16"; }
template <> const char* tname<uint16_t>() { return "uint16"; }
template <> const char* tname<int32_t>() { return "int32"; }
template <> const char* tname<uint32_t>() { return "uint32"; }
template <> const char* tname<int64_t>() { return "int64"; }
template <> const char* tname<uint64_t>() { return "uint64"; }

/// independent reference: decimal digits of |v|, most significant first
struct Ref
{
   char digits[24];   // ascii digits, right aligned, ends at digits[23] (exclusive end = 24)
   int n = 0;         // number of digits
   bool neg = false;
   template <typename T> void set(T v)
   {
      typedef typename std::make_unsigned<T>::type U;
      neg = std::is_signed<T>::value && v < 0;
      U mag = neg ? static_cast<U>(U(0) - static_cast<U>(v)) : static_cast<U>(v);
      n = 0;
      do { digits[23 - n] = char('0' + int(mag % 10)); mag = U(mag / 10); ++n; } while (mag != 0);
   }
   /// odometer step: value + 1 (only used while the sign does not change)
   void inc_magnitude()
   {
      int i = 23;
      for (;; --i)
      {
         if (i < 24 - n) { digits[i] = '1'; ++n; return; }
         if (digits[i] != '9') { ++digits[i]; return; }
         digits[i] = '0';
      }
   }
   void dec_magnitude()
   {
      int i = 23;
      for (;; --i)
      {
         if (digits[i] != '0') { --digits[i]; break; }
         digits[i] = '9';
      }
      if (n > 1 && digits[24 - n] == '0') --n;
   }
   int plain(char* dst) const
   {
      int k = 0;
      if (neg) dst[k++] = '-';
      memcpy(dst + k, digits + 24 - n, n);
      k += n;
      dst[k] = 0;
      return k;
   }
   int grouped(char* dst, char g) const
   {
      int k = 0;
      if (neg) dst[k++] = '-';
      for (int i = 0; i < n; ++i)
      {
         if (i > 0 && (n - i) % 3 == 0) dst[k++] = g;
         dst[k++] = digits[24 - n + i];
      }
      dst[k] = 0;
      return k;
   }
};

template <typename T> std::string vstr(T v)
{
   char b[32];
   if (std::is_signed<T>::value) snprintf(b, sizeof b, "%lld", (long long)v);
   else snprintf(b, sizeof b, "%llu", (unsigned long long)v);
   return b;
}

template <typename T> void fail(const char* what, T v, const std::string& got, const char* exp, char g = 0)
{
   std::string key = std::string(what) + "|" + tname<T>();
   std::string d = "value=" + vstr(v) + " got='" + vh::printable(got) + "' expected='" + exp + "'";
   if (g) { d += " group='"; d += g; d += "'"; }
   out.viol(key, d);
}

static const unsigned char CANARY = 0xA5;

/// buffer variant inside a canary field
template <typename F>
static bool canary_call(F f, const char* exp, int explen, std::string& got, std::string& why)
{
   unsigned char field[96];
   memset(field, CANARY, sizeof field);
   char* buf = reinterpret_cast<char*>(field) + 32;
   int r = f(buf);
   bool ok = true;
   for (int i = 0; i < 32; ++i) if (field[i] != CANARY) { ok = false; why = "wrote before the buffer"; }
   for (int i = 32 + explen + 1; i < 96; ++i) if (field[i] != CANARY) { ok = false; why = "wrote beyond the NUL"; }
   if (r != explen) { ok = false; why = "returned length " + std::to_string(r); }
   if (buf[explen] != 0) { ok = false; why = "no NUL at length"; }
   if (memcmp(buf, exp, explen) != 0) { ok = false; if (why.empty()) why = "text differs"; }
   got.assign(buf, strnlen(buf, 60));
   return ok;
}

/// buffer variant on an exact-size heap block (ASan red zones on both sides)
template <typename F>
static bool heap_call(F f, const char* exp, int explen, std::string& got, std::string& why)
{
   char* buf = static_cast<char*>(malloc(explen + 1));
   memset(buf, CANARY, explen + 1);
   int r = f(buf);
   bool ok = (r == explen) && buf[explen] == 0 && memcmp(buf, exp, explen) == 0;
   if (!ok) why = "heap buffer: text/length/NUL differ, returned " + std::to_string(r);
   got.assign(buf, strnlen(buf, explen + 1));
   free(buf);
   return ok;
}

struct Opts
{
   bool heap = true;        // also run the buffer variants on exact heap blocks
   unsigned groupMask = 31; // which group characters
   bool roundtrip = true;
   bool strings = true;     // std::string returning variants
};

template <typename T> void check_with_ref(T v, const Ref& ref, const Opts& o)
{
   char exp[40];
   int explen = ref.plain(exp);
   std::string got, why;

   if (o.strings)
   {
      std::string s = int2string(v);
      if (s.size() != (size_t)explen || memcmp(s.data(), exp, explen) != 0) fail("string", v, s, exp);
   }
   if (!canary_call([&](char* b) { return int2string(b, v); }, exp, explen, got, why))
      fail("buffer", v, got + " (" + why + ")", exp);
   if (o.heap)
   {
      why.clear();
      if (!heap_call([&](char* b) { return int2string(b, v); }, exp, explen, got, why))
         fail("buffer", v, got + " (" + why + ")", exp);
   }
   for (unsigned gi = 0; gi < sizeof GROUP_CHARS; ++gi)
   {
      if (!(o.groupMask & (1u << gi))) continue;
      char g = GROUP_CHARS[gi];
      char gexp[48];
      int glen = ref.grouped(gexp, g);
      if (o.strings)
      {
         std::string s = grouped_int2string(v, g);
         if (s.size() != (size_t)glen || memcmp(s.data(), gexp, glen) != 0) fail("grouped-string", v, s, gexp, g);
      }
      why.clear();
      if (!canary_call([&](char* b) { return grouped_int2string(b, v, g); }, gexp, glen, got, why))
         fail("grouped-buffer", v, got + " (" + why + ")", gexp, g);
      if (o.heap)
      {
         why.clear();
         if (!heap_call([&](char* b) { return grouped_int2string(b, v, g); }, gexp, glen, got, why))
            fail("grouped-buffer", v, got + " (" + why + ")", gexp, g);
      }
   }
   if (o.roundtrip)
   {
      try
      {
         T back = stringTo<T>(std::string(exp));
         if (back != v) fail("roundtrip", v, vstr(back), exp);
      }
      catch (const std::exception& e)
      {
         fail("roundtrip", v, std::string("exception ") + e.what(), exp);
      }
      out.stat("roundtrips");
   }
   out.stat("values");
}

template <typename T> void check_value(T v, const Opts& o)
{
   Ref r;
   r.set(v);
   check_with_ref(v, r, o);
}

/// sweep [first, first+n) of T's value space given as unsigned index from the type minimum
template <typename T> void sweep(uint64_t firstIdx, uint64_t n, const Opts& o, unsigned rtEvery)
{
   typedef typename std::make_unsigned<T>::type U;
   const U minU = static_cast<U>(std::numeric_limits<T>::min());
   T v = static_cast<T>(static_cast<U>(minU + static_cast<U>(firstIdx)));
   Ref r;
   r.set(v);
   Opts oo = o;
   for (uint64_t i = 0; i < n; ++i)
   {
      oo.roundtrip = o.roundtrip && (rtEvery <= 1 || (static_cast<uint64_t>(static_cast<U>(v)) % rtEvery) == 0);
      check_with_ref(v, r, oo);
      if (i + 1 == n) break;
      // lock-step odometer
      if (std::is_signed<T>::value && v < 0)
      {
         if (v == T(-1)) { r.set(T(0)); }
         else r.dec_magnitude();
      }
      else r.inc_magnitude();
      v = static_cast<T>(static_cast<U>(static_cast<U>(v) + U(1)));
   }
}

template <typename T> std::vector<T> anchors()
{
   typedef typename std::make_unsigned<T>::type U;
   std::vector<T> a;
   a.push_back(std::numeric_limits<T>::min());
   a.push_back(std::numeric_limits<T>::max());
   a.push_back(0);
   U p = 1;
   for (int k = 0; k < 20; ++k)
   {
      if (p <= static_cast<U>(std::numeric_limits<T>::max())) { a.push_back(static_cast<T>(p)); if (std::is_signed<T>::value) a.push_back(static_cast<T>(U(0) - p)); }
      if (p > std::numeric_limits<U>::max() / 10) break;
      p = U(p * 10);
   }
   for (unsigned k = 0; k < sizeof(T) * 8; ++k)
   {
      U q = U(U(1) << k);
      if (q <= static_cast<U>(std::numeric_limits<T>::max())) { a.push_back(static_cast<T>(q)); }
      if (std::is_signed<T>::value) a.push_back(static_cast<T>(U(0) - q));
   }
   return a;
}

/// anchor +- radius, clipped to the type (wrapping is fine: every value is a legal input)
template <typename T> void around(T anchor, int64_t off, const Opts& o)
{
   typedef typename std::make_unsigned<T>::type U;
   T v = static_cast<T>(static_cast<U>(static_cast<U>(anchor) + static_cast<U>(off)));
   check_value(v, o);
}

int main(int argc, char** argv)
{
   vh::Args a = vh::parse_args(argc, argv);
   prog.open(a.progress);
   verbose = a.getu("verbose", 0) != 0;
   Opts o;
   o.heap = a.getu("heap", 1) != 0;
   const uint64_t end = a.start + a.count;
   char d[160];

   // spot check of the reference itself against snprintf
   {
      Ref r; char b[40], c[40];
      int64_t probes[] = { 0, 1, -1, 9, 10, -10, 999, 1000, INT32_MIN, INT32_MAX, INT64_MIN, INT64_MAX, 1234567, -1234567 };
      for (int64_t p : probes)
      {
         r.set(p); r.plain(b); snprintf(c, sizeof c, "%lld", (long long)p);
         if (strcmp(b, c)) { fprintf(stderr, "reference broken for %lld: %s\n", (long long)p, b); return 3; }
      }
      r.set(int64_t(-1234567)); r.grouped(b, ',');
      if (strcmp(b, "-1,234,567")) { fprintf(stderr, "reference grouping broken: %s\n", b); return 3; }
      r.set(uint64_t(100)); r.grouped(b, ',');
      if (strcmp(b, "100")) { fprintf(stderr, "reference grouping broken: %s\n", b); return 3; }
      r.set(uint64_t(999)); r.inc_magnitude(); r.plain(b);
      if (strcmp(b, "1000")) { fprintf(stderr, "odometer broken: %s\n", b); return 3; }
      r.dec_magnitude(); r.plain(b);
      if (strcmp(b, "999")) { fprintf(stderr, "odometer broken: %s\n", b); return 3; }
   }

   if (a.mode == "exh16")
   {
      // case = one 16-bit pattern; all four small types (8 bit: patterns < 256)
      for (uint64_t i = a.start; i < end; ++i)
      {
         out.curIdx = i;
         snprintf(d, sizeof d, "exh16 pattern=%" PRIu64, i);
         prog.set(i, d);
         check_value(static_cast<int16_t>(static_cast<uint16_t>(i)), o);
         check_value(static_cast<uint16_t>(i), o);
         uint64_t ne = 2;
         if (i < 256)
         {
            check_value(static_cast<int8_t>(static_cast<uint8_t>(i)), o);
            check_value(static_cast<uint8_t>(i), o);
            ne = 4;
         }
         out.stat("cases");
         out.stat("distinct_exact", ne);
         if (i % 9973 == 7) out.sample("int16 " + int2string(static_cast<int16_t>(static_cast<uint16_t>(i))) + " grouped " + grouped_int2string(static_cast<int16_t>(static_cast<uint16_t>(i)), ','));
      }
   }
   else if (a.mode == "edge32" || a.mode == "edge64")
   {
      // case index -> (anchor, offset in [-R, R])
      const int64_t R = (int64_t)a.getu("radius", 70000);
      const uint64_t span = 2 * R + 1;
      const bool w64 = a.mode == "edge64";
      auto a32s = anchors<int32_t>(); auto a32u = anchors<uint32_t>();
      auto a64s = anchors<int64_t>(); auto a64u = anchors<uint64_t>();
      const uint64_t na = w64 ? (a64s.size() + a64u.size()) : (a32s.size() + a32u.size());
      for (uint64_t i = a.start; i < end; ++i)
      {
         out.curIdx = i;
         uint64_t ai = (i / span) % na;
         int64_t off = (int64_t)(i % span) - R;
         snprintf(d, sizeof d, "%s anchor#%" PRIu64 " off=%" PRId64, a.mode.c_str(), ai, off);
         prog.set(i, d);
         if (!w64)
         {
            if (ai < a32s.size()) around<int32_t>(a32s[ai], off, o);
            else around<uint32_t>(a32u[ai - a32s.size()], off, o);
         }
         else
         {
            if (ai < a64s.size()) around<int64_t>(a64s[ai], off, o);
            else around<uint64_t>(a64u[ai - a64s.size()], off, o);
         }
         out.stat("cases");
         out.distinct(vh::mix(vh::hash_str(a.mode), i % (span * na)));
      }
      out.stat("anchors", 0);
   }
   else if (a.mode == "rand32" || a.mode == "rand64")
   {
      const bool w64 = a.mode == "rand64";
      for (uint64_t i = a.start; i < end; ++i)
      {
         out.curIdx = i;
         vh::Rng r(vh::mix(a.seed, vh::mix(vh::hash_str(a.mode), i)));
         uint64_t x = r.next();
         // mix of magnitudes: choose a bit width uniformly, so that every decade is populated
         unsigned bits = 1 + (unsigned)r.below(w64 ? 64 : 32);
         if (bits < 64) x &= ((uint64_t(1) << bits) - 1);
         bool neg = r.chance(1, 2);
         snprintf(d, sizeof d, "%s x=%" PRIu64 " neg=%d", a.mode.c_str(), x, (int)neg);
         prog.set(i, d);
         if (w64)
         {
            check_value(static_cast<uint64_t>(x), o);
            check_value(static_cast<int64_t>(neg ? uint64_t(0) - x : x), o);
         }
         else
         {
            check_value(static_cast<uint32_t>(x), o);
            check_value(static_cast<int32_t>(static_cast<uint32_t>(neg ? uint64_t(0) - x : x)), o);
         }
         out.stat("cases");
         out.distinct(vh::mix(x, neg ? 77 : 78));
         if (out.wantSample()) out.sample(std::string(a.mode) + " " + (w64 ? int2string(static_cast<int64_t>(neg ? uint64_t(0) - x : x)) : int2string(static_cast<int32_t>(static_cast<uint32_t>(neg ? uint64_t(0) - x : x)))));
      }
   }
   else if (a.mode == "full32")
   {
      // case = block of 2^16 consecutive values of int32_t and of uint32_t (lock-step odometer)
      Opts f = o;
      f.heap = a.getu("heap", 0) != 0;
      f.groupMask = (unsigned)a.getu("groupmask", 1 | 2);
      // stride > 1: every stride-th block, starting at (seed % stride) - a 1/stride sample of the value space
      const uint64_t stride = a.getu("stride", 1);
      const uint64_t offset = stride > 1 ? a.seed % stride : 0;
      for (uint64_t i = a.start; i < end; ++i)
      {
         out.curIdx = i;
         const uint64_t blk = i * stride + offset;
         snprintf(d, sizeof d, "full32 block=%" PRIu64 " (values min+%" PRIu64 "*65536 ..)", blk, blk);
         prog.set(i, d);
         sweep<int32_t>(blk << 16, 65536, f, 64);
         sweep<uint32_t>(blk << 16, 65536, f, 64);
         out.stat("cases");
         out.stat("distinct_exact", 2 * 65536);
      }
   }
   else if (a.mode == "mt")
   {
      // the conversion functions have no state: T threads convert at the same time, every result is compared with the
      // reference (judged inside the thread, reported after the join - vh::Out is not thread safe)
      const unsigned T = (unsigned)a.getu("threads", 8), N = (unsigned)a.getu("values", 4000);
      for (uint64_t idx = a.start; idx < a.start + a.count; ++idx)
      {
         out.curIdx = idx;
         char d[96];
         snprintf(d, sizeof d, "mt threads=%u values=%u", T, N);
         prog.set(idx, d);
         struct Res { uint64_t bad = 0, done = 0; std::string first; char pad[64]; };
         std::vector<Res> res(T);
         std::atomic<int> go{ 0 };
         std::vector<std::thread> th;
         for (unsigned t = 0; t < T; ++t)
         {
            th.emplace_back([&, t]() {
               vh::Rng r(vh::mix(a.seed, vh::mix(vh::hash_str("mt"), idx * 64 + t)));
               Ref ref;
               char exp[48], buf[64];
               while (!go.load(std::memory_order_acquire)) { }
               for (unsigned i = 0; i < N; ++i)
               {
                  uint64_t x = r.next();
                  const unsigned bits = 1 + (unsigned)r.below(64);
                  if (bits < 64) x &= (uint64_t(1) << bits) - 1;
                  const char g = GROUP_CHARS[r.below(sizeof GROUP_CHARS)];
                  auto one = [&](auto v) {
                     ref.set(v);
                     int n = ref.plain(exp);
                     std::string s = int2string(v);
                     bool ok = s == exp;
                     if (ok) { memset(buf, 0x5A, sizeof buf); ok = int2string(buf, v) == n && !strcmp(buf, exp); if (!ok) s = buf; }
                     if (ok) { n = ref.grouped(exp, g); s = grouped_int2string(v, g); ok = s == exp; }
                     if (ok) { memset(buf, 0x5A, sizeof buf); ok = grouped_int2string(buf, v, g) == n && !strcmp(buf, exp); if (!ok) s = buf; }
                     ++res[t].done;
                     if (!ok && res[t].bad++ == 0) res[t].first = std::string(tname<decltype(v)>()) + " " + vstr(v) + " -> '" + s + "', expected '" + exp + "'";
                  };
                  switch (r.below(8))
                  {
                  case 0: one(static_cast<int64_t>(x)); break;
                  case 1: one(static_cast<int64_t>(uint64_t(0) - x)); break;
                  case 2: one(static_cast<int64_t>(uint64_t(0) - (x | 1))); break;
                  case 3: one(static_cast<uint64_t>(x)); break;
                  case 4: one(static_cast<int32_t>(static_cast<uint32_t>(x))); break;
                  case 5: one(static_cast<uint32_t>(x)); break;
                  case 6: one(static_cast<int16_t>(static_cast<uint16_t>(x))); break;
                  default: one(static_cast<int8_t>(static_cast<uint8_t>(x))); break;
                  }
               }
            });
         }
         go.store(1, std::memory_order_release);
         for (auto& t : th) t.join();
         uint64_t bad = 0, done = 0;
         std::string first;
         for (auto& x : res) { bad += x.bad; done += x.done; if (first.empty()) first = x.first; }
         out.stat("cases");
         out.stat("values", done);
         out.stat("mt.concurrent_conversions", done);
         out.distinct(vh::mix(vh::hash_str("mt"), idx));
         if (bad)
            out.viol("mt|result differs from the reference while other threads convert", std::to_string(bad) + " of " + std::to_string(done) + " conversions in " + d + "; first: " + first);
      }
   }
   else
   {
      fprintf(stderr, "unknown mode %s\n", a.mode.c_str());
      return 3;
   }
   out.finish(a);
   return 0;
}
