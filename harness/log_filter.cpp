// C14 - a log message reaches exactly the destinations whose filters it passes.
//
// One case = one configuration: duplicate policy, 1..5 logs, 0..3 recording destinations per
// log, a sequence of 0..6 filter settings on every log and every destination.  Every
// (level, class) pair (7 x 7, incl. `undefined`) is sent to every subset of the log ids (and
// to every log by name); the recording destinations append (destination id, message serial)
// to an event log and an offline checker compares the multiset of deliveries of every send
// with an independent model (map filter type -> parameter per Filters object, updated by the
// duplicate policy, pass = conjunction).  The cheap pre-check (Filters::processLevel(),
// detail::discard_by_level()) is probed for every log (by id and by name) and every level
// against the full filters of that log.
//
// Abstentions (documentation silent): the position of LogLevel::undefined relative to a
// minimum/maximum level - min/max filters are never set to `undefined`, and a message with
// level `undefined` that meets a min/max filter is only checked for "at most once".
#include "vh.hpp"

#include <array>
#include <exception>
#include <map>
#include <sstream>
#include <stdexcept>

#include "celma/log/detail/helper_function.hpp"
#include "celma/log/detail/i_log_dest.hpp"
#include "celma/log/detail/log.hpp"
#include "celma/log/detail/log_defs.hpp"
#include "celma/log/detail/log_msg.hpp"
#include "celma/log/detail/stream_log.hpp"
#include "celma/log/filter/filters.hpp"
#include "celma/log/log_macros.hpp"
#include "celma/log/logging.hpp"

using celma::log::LogClass;
using celma::log::LogLevel;
using celma::log::Logging;
using celma::log::filter::Filters;
using celma::log::filter::detail::DuplicatePolicy;
namespace cld = celma::log::detail;

static vh::Out out;
static vh::Progress prog;
static bool verbose = false;

// ---------------------------------------------------------------- documented vocabulary

static const int NLEVELS = 7, NCLASSES = 7;
static const char* const LEVEL_NAMES[NLEVELS] = { "undefined", "fatal", "error", "warning", "info", "debug", "fullDebug" };
// the six selectable classes, spelled as log_defs.hpp documents their display texts
static const char* const CLASS_TEXT[NCLASSES] = { "undefined", "SysCall", "Data", "Communication", "Application",
                                                  "Accounting", "Operator Action" };

enum FType { F_MAX = 0, F_MIN = 1, F_LEVEL = 2, F_CLASSES = 3, F_NTYPES = 4 };
static const char* const FTYPE_NAMES[F_NTYPES] = { "maxLevel", "minLevel", "level", "classes" };
enum Policy { P_IGNORE = 0, P_REPLACE = 1, P_EXCEPTION = 2 };
static const char* const POLICY_NAMES[3] = { "ignore", "replace", "exception" };

// ---------------------------------------------------------------- the model

/// verdicts of the model: the message must not pass / must pass / documentation silent
enum Verdict { V_BLOCK = 0, V_PASS = 1, V_UNKNOWN = 2 };

struct ModelFilters
{
   bool has[F_NTYPES] = { false, false, false, false };
   int param[F_NTYPES] = { 0, 0, 0, 0 };   // level, or bit mask of classes (bit = enum value)

   /// @return true if the documented behaviour is "throw"
   bool set(FType t, int p, Policy pol)
   {
      if (!has[t]) { has[t] = true; param[t] = p; return false; }
      if (pol == P_REPLACE) param[t] = p;
      return pol == P_EXCEPTION;
   }
   /// does one filter type accept the message?
   Verdict accepts(FType t, int lvl, int cls) const
   {
      switch (t)
      {
      case F_MAX:     return lvl == 0 ? V_UNKNOWN : (lvl <= param[t] ? V_PASS : V_BLOCK);   // "maximum log level to accept"
      case F_MIN:     return lvl == 0 ? V_UNKNOWN : (lvl >= param[t] ? V_PASS : V_BLOCK);   // "minimum log level to accept"
      case F_LEVEL:   return lvl == param[t] ? V_PASS : V_BLOCK;                            // "the single log level to accept"
      case F_CLASSES: return ((param[t] >> cls) & 1) ? V_PASS : V_BLOCK;                    // "list of log classes to accept"
      default:        return V_UNKNOWN;
      }
   }
   /// conjunction; a definite block wins over "unknown"
   Verdict pass(int lvl, int cls, unsigned* blockers = nullptr) const
   {
      Verdict r = V_PASS;
      for (int t = 0; t < F_NTYPES; ++t)
      {
         if (!has[t]) continue;
         Verdict v = accepts(static_cast<FType>(t), lvl, cls);
         if (v == V_BLOCK) { if (blockers) *blockers |= 1u << t; r = V_BLOCK; }
         else if (v == V_UNKNOWN && r == V_PASS) r = V_UNKNOWN;
      }
      return r;
   }
};

// ---------------------------------------------------------------- recording destination

struct Event { int dest; int serial; int level; int cls; };
static std::vector<Event> g_events;

class RecDest : public cld::ILogDest
{
public:
   explicit RecDest(int id) : mId(id) {}
private:
   void message(const cld::LogMsg& msg) override
   {
      g_events.push_back(Event{ mId, msg.getErrorNbr(), static_cast<int>(msg.getLevel()), static_cast<int>(msg.getClass()) });
   }
   int mId;
};

// ---------------------------------------------------------------- configuration

struct Setting { FType type; int param; std::string spelled; Policy policy; };

struct DestCfg { int id; std::string name; std::vector<Setting> settings; ModelFilters model; bool removed = false;
                 cld::ILogDest* real = nullptr; };
struct LogCfg { std::string name; celma::log::id_t id = 0; std::vector<Setting> settings; ModelFilters model;
                std::vector<DestCfg> dests; cld::Log* real = nullptr; };

static std::string spell_classes(vh::Rng& r, int mask)
{
   std::vector<int> cl;
   for (int c = 1; c < NCLASSES; ++c) if ((mask >> c) & 1) cl.push_back(c);
   for (size_t i = cl.size(); i > 1; --i) std::swap(cl[i - 1], cl[r.below(i)]);   // any order
   std::string s;
   for (size_t i = 0; i < cl.size(); ++i)
   {
      if (i) s += ',';
      std::string n = CLASS_TEXT[cl[i]];
      unsigned style = r.below(4);   // as documented / lower / upper / random per character
      for (auto& ch : n)
      {
         if (style == 1) ch = (char)tolower(ch);
         else if (style == 2) ch = (char)toupper(ch);
         else if (style == 3) ch = r.chance(1, 2) ? (char)toupper(ch) : (char)tolower(ch);
      }
      s += n;
   }
   return s;
}

static std::vector<Setting> gen_settings(vh::Rng& r, Policy basePolicy, bool varyPolicy)
{
   std::vector<Setting> v;
   // length 0..6, biased to short sequences but with enough duplicates
   static const unsigned LEN[20] = { 0, 0, 0, 0, 1, 1, 1, 1, 1, 2, 2, 2, 2, 3, 3, 4, 4, 5, 6, 6 };
   unsigned n = LEN[r.below(20)];
   unsigned focus = r.below(6);   // 0..3: make duplicates of that type likely
   for (unsigned i = 0; i < n; ++i)
   {
      Setting s;
      s.type = static_cast<FType>((focus < 4 && r.chance(1, 2)) ? focus : r.below(4));
      s.policy = varyPolicy ? static_cast<Policy>(r.below(3)) : basePolicy;
      if (s.type == F_CLASSES)
      {
         s.param = (int)(r.below(63) + 1) << 1;   // every non-empty subset of the six classes
         s.spelled = spell_classes(r, s.param);
      }
      else if (s.type == F_LEVEL) { s.param = (int)r.below(7); s.spelled = LEVEL_NAMES[s.param]; }
      else { s.param = (int)r.below(6) + 1; s.spelled = LEVEL_NAMES[s.param]; }   // min/max: never `undefined`
      v.push_back(s);
   }
   return v;
}

static std::string settings_text(const std::vector<Setting>& v, bool withPolicy)
{
   std::string s;
   for (auto& x : v)
   {
      s += ' ';
      s += FTYPE_NAMES[x.type];
      s += '(' + x.spelled + ')';
      if (withPolicy) { s += '@'; s += POLICY_NAMES[x.policy]; }
   }
   return s;
}

static Policy g_curPolicy = P_IGNORE;
static void real_policy(Policy p)
{
   Filters::setDuplicatePolicy(p == P_IGNORE ? DuplicatePolicy::ignore : p == P_REPLACE ? DuplicatePolicy::replace
                                                                                          : DuplicatePolicy::exception);
   g_curPolicy = p;
}

/// apply the settings to a real Filters object and to the model; @return false if the real
/// object is in an unknown state afterwards (unexpected exception)
static bool apply_settings(Filters* real, ModelFilters& model, const std::vector<Setting>& v, bool setPolicyEach,
                           const std::string& where)
{
   for (auto& s : v)
   {
      if (setPolicyEach) real_policy(s.policy);
      char d[400];
      snprintf(d, sizeof d, "filter %s %s(%s) policy=%s", where.c_str(), FTYPE_NAMES[s.type], s.spelled.c_str(),
               POLICY_NAMES[s.policy]);
      prog.descr(d);
      const bool had = model.has[s.type];
      const bool expectThrow = model.set(s.type, s.param, s.policy);
      bool threw = false;
      std::string what;
      try
      {
         switch (s.type)
         {
         case F_MAX:     real->maxLevel(static_cast<LogLevel>(s.param)); break;
         case F_MIN:     real->minLevel(static_cast<LogLevel>(s.param)); break;
         case F_LEVEL:   real->level(static_cast<LogLevel>(s.param)); break;
         case F_CLASSES: real->classes(s.spelled); break;
         default: break;
         }
      }
      catch (const std::exception& e) { threw = true; what = e.what(); }
      out.stat(std::string("set_") + FTYPE_NAMES[s.type]);
      if (had) out.stat(std::string("duplicate_") + POLICY_NAMES[s.policy]);
      if (threw && !expectThrow)
      {
         out.viol(std::string(FTYPE_NAMES[s.type]) + "|unexpected-exception",
                  std::string(d + 7) + (had ? " (duplicate)" : " (first of its type)") + " threw: " + what);
         return false;
      }
      if (!threw && expectThrow)
      {
         out.viol(std::string(FTYPE_NAMES[s.type]) + "|duplicate-not-rejected",
                  std::string(d + 7) + ": policy 'exception' and a filter of this type exists, but no exception");
         return false;   // the real state is not defined by the documentation now
      }
      if (threw) out.stat("expected_throws");
   }
   return true;
}

// ---------------------------------------------------------------- one configuration

static void run_config(const vh::Args& a, uint64_t idx)
{
   vh::Rng r(vh::mix(a.seed, vh::mix(vh::hash_str(a.mode), idx)));
   out.curIdx = idx;
   prog.set(idx, "setup");

   // ---- generate
   const Policy basePolicy = static_cast<Policy>(r.below(3));
   // 0: policy set before the logs are created; 1: after all objects exist; 2: changed before every setting
   const unsigned policyWhen = r.below(4) == 0 ? 2 : r.below(2);
   const bool varyPolicy = policyWhen == 2;
   const unsigned nlogs = 1 + r.below(5);
   const bool viaStream = r.chance(1, 2);
   std::vector<LogCfg> logs(nlogs);
   int nextDest = 0;
   static const char* const NAMES[] = { "trace", "operation", "debug", "audit", "console" };
   for (unsigned l = 0; l < nlogs; ++l)
   {
      logs[l].name = NAMES[l];
      logs[l].settings = gen_settings(r, basePolicy, varyPolicy);
      unsigned nd = r.below(4);
      for (unsigned k = 0; k < nd; ++k)
      {
         DestCfg dc;
         dc.id = nextDest++;
         dc.name = "dest" + std::to_string(k);
         dc.settings = gen_settings(r, basePolicy, varyPolicy);
         logs[l].dests.push_back(dc);
      }
   }
   const int removeDest = (nextDest > 0 && r.chance(1, 8)) ? (int)r.below(nextDest) : -1;
   const bool interleave = r.chance(1, 2);   // destination filters before / after the log's filters

   std::string descr = std::string("policy=") + (varyPolicy ? "per-setting" : POLICY_NAMES[basePolicy]) +
                       (policyWhen == 0 ? "(early)" : policyWhen == 1 ? "(late)" : "") + (viaStream ? " via=LOG-macro" : " via=Logging::log");
   for (auto& lg : logs)
   {
      descr += " | log " + lg.name + ":" + settings_text(lg.settings, varyPolicy);
      for (auto& dc : lg.dests)
         descr += " ; dest#" + std::to_string(dc.id) + (dc.id == removeDest ? "(removed)" : "") + ":" + settings_text(dc.settings, varyPolicy);
   }
   if (verbose) printf("CONFIG %s\n", descr.c_str());
   out.distinct(vh::hash_str(descr));
   out.stat(std::string("policy_") + (varyPolicy ? "per_setting" : POLICY_NAMES[basePolicy]));
   out.stat(policyWhen == 0 ? "policy_set_before_objects" : policyWhen == 1 ? "policy_set_after_objects" : "policy_set_per_setting");

   // ---- build the real thing
   Logging::reset();
   g_events.clear();
   real_policy(P_IGNORE);   // the documented default
   Filters policyProbe;     // exists before the policy is configured
   if (policyWhen == 0) real_policy(basePolicy);
   bool tainted = false;
   for (unsigned l = 0; l < nlogs; ++l)
   {
      LogCfg& lg = logs[l];
      lg.id = Logging::instance().findCreateLog(lg.name);
      if (lg.id == 0 || (lg.id & (lg.id - 1)) != 0)
         out.viol("findCreateLog|id-not-a-single-bit", "log " + lg.name + " got id " + std::to_string(lg.id));
      for (unsigned m = 0; m < l; ++m)
         if (logs[m].id == lg.id) out.viol("findCreateLog|id-not-unique", "logs " + logs[m].name + " and " + lg.name + " share id " + std::to_string(lg.id));
      if (Logging::instance().findCreateLog(lg.name) != lg.id)
         out.viol("findCreateLog|existing-log-not-found", "second findCreateLog(" + lg.name + ") returned another id");
      lg.real = Logging::instance().getLog(lg.id);
      if (lg.real == nullptr || lg.real != Logging::instance().getLog(lg.name))
      {
         out.viol("getLog|id-and-name-disagree", "log " + lg.name + " id " + std::to_string(lg.id));
         tainted = true;
         continue;
      }
      for (auto& dc : lg.dests) dc.real = lg.real->addDestination(dc.name, new RecDest(dc.id));
   }
   if (policyWhen == 1) real_policy(basePolicy);
   if (policyWhen != 2 && !tainted)
   {
      // "This setting applies to all filter objects of all logs": which policy is in effect now?
      prog.descr("policyprobe");
      cld::LogMsg pm(LOG_MSG_OBJECT_INIT);
      int seen = -1;
      try
      {
         policyProbe.level(LogLevel::fatal);
         policyProbe.level(LogLevel::error);
         pm.setLevel(LogLevel::fatal);
         const bool keepsOld = policyProbe.pass(pm);
         pm.setLevel(LogLevel::error);
         const bool hasNew = policyProbe.pass(pm);
         if (keepsOld != hasNew) seen = keepsOld ? P_IGNORE : P_REPLACE;
      }
      catch (const std::exception&) { seen = P_EXCEPTION; }
      out.stat("policy_probes");
      if (seen != (int)basePolicy)
      {
         out.viol(std::string("duplicate-policy|not-in-effect|") + (policyWhen == 0 ? "set-before-objects-created" : "set-after-objects-created"),
                  std::string("setDuplicatePolicy(") + POLICY_NAMES[basePolicy] + ") " + (policyWhen == 0 ? "before" : "after") + " creating " +
                     std::to_string(nlogs) + " log(s) and " + std::to_string(nextDest) + " destination(s); level(fatal) + level(error) on a Filters object then behaved like policy '" +
                     (seen < 0 ? "?" : POLICY_NAMES[seen]) + "'");
         tainted = true;
      }
   }
   for (unsigned l = 0; l < nlogs && !tainted; ++l)
   {
      LogCfg& lg = logs[l];
      if (!interleave) tainted = !apply_settings(lg.real, lg.model, lg.settings, varyPolicy, "log:" + lg.name) || tainted;
      for (auto& dc : lg.dests)
      {
         if (tainted) break;
         // the pointer returned by addDestination() and the one found by name must be the same object
         cld::ILogDest* byName = lg.real->getDestination(dc.name);
         if (byName != dc.real) out.viol("getDestination|other-object", "log " + lg.name + " dest " + dc.name);
         tainted = !apply_settings(dc.real, dc.model, dc.settings, varyPolicy, "dest#" + std::to_string(dc.id)) || tainted;
      }
      if (interleave && !tainted) tainted = !apply_settings(lg.real, lg.model, lg.settings, varyPolicy, "log:" + lg.name) || tainted;
   }
   if (tainted)
   {
      out.stat("configs_abandoned_after_violation");
      out.stat("cases");
      return;
   }
   if (removeDest >= 0)
      for (auto& lg : logs)
         for (auto& dc : lg.dests)
            if (dc.id == removeDest)
            {
               prog.descr("removeDestination");
               lg.real->removeDestination(dc.name);
               dc.removed = true;
               dc.real = nullptr;
               out.stat("destinations_removed");
            }

   // ---- pre-check: must never discard what the full filters of that log let through
   cld::LogMsg msg(LOG_MSG_OBJECT_INIT);
   msg.setText("m");
   for (auto& lg : logs)
   {
      for (int lvl = 0; lvl < NLEVELS; ++lvl)
      {
         char d[200];
         snprintf(d, sizeof d, "precheck log=%s level=%s", lg.name.c_str(), LEVEL_NAMES[lvl]);
         prog.descr(d);
         const LogLevel ll = static_cast<LogLevel>(lvl);
         bool fullPassReal = false, fullPassModel = false;
         msg.setLevel(ll);
         for (int cls = 0; cls < NCLASSES; ++cls)
         {
            msg.setClass(static_cast<LogClass>(cls));
            if (lg.real->pass(msg)) fullPassReal = true;
            if (lg.model.pass(lvl, cls) == V_PASS) fullPassModel = true;
         }
         const bool p = lg.real->processLevel(ll);
         const bool dId = cld::discard_by_level(lg.id, ll);
         const bool dName = cld::discard_by_level(lg.name, ll);
         out.stat("precheck_probes", 3);
         if (!p || dId || dName) out.stat("precheck_said_discard");
         if (fullPassReal || fullPassModel)
         {
            out.stat("precheck_probes_with_passing_message", 3);
            std::string det = "log " + lg.name + " filters:" + settings_text(lg.settings, varyPolicy) + " policy=" +
                              (varyPolicy ? "per-setting" : POLICY_NAMES[basePolicy]) + " level=" + LEVEL_NAMES[lvl] +
                              (fullPassReal ? " passes Filters::pass()" : " passes per documentation");
            if (!p) out.viol("precheck|processLevel-discards-passing-message", det);
            if (dId) out.viol("precheck|discard_by_level-id-discards-passing-message", det);
            if (dName) out.viol("precheck|discard_by_level-name-discards-passing-message", det);
         }
      }
   }
   // unknown log: a message to it reaches nobody, "discard" is the only sound answer; must not crash
   prog.descr("precheck unknown-log");
   (void)cld::discard_by_level(std::string("no-such-log"), LogLevel::info);
   (void)cld::discard_by_level(static_cast<celma::log::id_t>(1u << 20), LogLevel::info);
   if (nlogs >= 2)
   {
      // documented: getLog() throws for more than one id
      prog.descr("precheck id-set");
      bool threw = false;
      try { (void)cld::discard_by_level(logs[0].id | logs[1].id, LogLevel::info); }
      catch (const std::exception&) { threw = true; }
      out.stat("getlog_idset_probes");
      if (!threw) out.viol("getLog|id-set-accepted", "getLog(" + std::to_string(logs[0].id | logs[1].id) + ") did not throw");
   }

   // ---- send every (level, class) to every id subset and to every log by name
   std::vector<int> count(nextDest > 0 ? nextDest : 1);
   int serial = 0;
   const unsigned nsub = 1u << nlogs;
   for (unsigned target = 0; target < nsub + nlogs; ++target)
   {
      const bool byName = target >= nsub;
      unsigned sel = 0;            // bit l = log l selected
      celma::log::id_t ids = 0;
      if (byName) sel = 1u << (target - nsub);
      else
      {
         sel = target;
         for (unsigned l = 0; l < nlogs; ++l) if ((sel >> l) & 1) ids |= logs[l].id;
      }
      for (int lvl = 0; lvl < NLEVELS; ++lvl)
         for (int cls = 0; cls < NCLASSES; ++cls)
         {
            ++serial;
            char d[200];
            snprintf(d, sizeof d, "send %s=%s%u level=%s class=%s", byName ? "name" : "ids", byName ? logs[target - nsub].name.c_str() : "0x",
                     byName ? 0u : (unsigned)ids, LEVEL_NAMES[lvl], CLASS_TEXT[cls]);
            prog.descr(d);
            const size_t before = g_events.size();
            const LogLevel ll = static_cast<LogLevel>(lvl);
            const LogClass lc = static_cast<LogClass>(cls);
            if (viaStream && (byName || ids != 0))
            {
               // what the LOG() macro expands to
               if (byName) LOG(logs[target - nsub].name) << ll << lc << cld::errnbr << serial << "m";
               else LOG(ids) << ll << lc << cld::errnbr << serial << "m";
               out.stat("sends_via_LOG_macro");
            }
            else
            {
               msg.setLevel(ll);
               msg.setClass(lc);
               msg.setErrorNumber(serial);
               if (byName) Logging::instance().log(logs[target - nsub].name, msg);
               else Logging::instance().log(ids, msg);
               out.stat("sends_via_Logging_log");
            }
            out.stat(byName ? "sends_by_name" : "sends_by_id_set");
            out.stat("messages");

            // offline check of the deliveries of this send
            std::fill(count.begin(), count.end(), 0);
            bool corrupt = false;
            for (size_t e = before; e < g_events.size(); ++e)
            {
               const Event& ev = g_events[e];
               if (ev.dest < 0 || ev.dest >= nextDest || ev.serial != serial || ev.level != lvl || ev.cls != cls) { corrupt = true; continue; }
               ++count[ev.dest];
            }
            out.stat("deliveries", g_events.size() - before);
            if (corrupt)
               out.viol("deliver|message-altered", std::string(d) + ": a destination saw another serial/level/class; " + descr);
            for (unsigned l = 0; l < nlogs; ++l)
            {
               const LogCfg& lg = logs[l];
               const bool selected = (sel >> l) & 1;
               unsigned blockers = 0;
               const Verdict vl = lg.model.pass(lvl, cls, &blockers);
               for (auto& dc : lg.dests)
               {
                  unsigned bl = blockers;
                  Verdict v = V_BLOCK;
                  if (selected && !dc.removed)
                  {
                     const Verdict vd = dc.model.pass(lvl, cls, &bl);
                     v = (vl == V_BLOCK || vd == V_BLOCK) ? V_BLOCK : (vl == V_UNKNOWN || vd == V_UNKNOWN) ? V_UNKNOWN : V_PASS;
                  }
                  const int got = count[dc.id];
                  const char* kind = nullptr;
                  std::string sub;
                  if (got > 1) kind = "duplicate";
                  else if (!selected && got) kind = "log-not-selected";
                  else if (dc.removed && got) kind = "destination-removed";
                  else if (v == V_BLOCK && got)
                  {
                     kind = "filter-not-applied";
                     int nb = 0, which = 0;
                     for (int t = 0; t < F_NTYPES; ++t) if ((bl >> t) & 1) { ++nb; which = t; }
                     sub = nb == 1 ? FTYPE_NAMES[which] : "several";
                  }
                  else if (v == V_PASS && !got) kind = "missing";
                  if (v == V_UNKNOWN) out.stat("abstain_undefined_level_vs_min_max");
                  else out.stat(v == V_PASS ? "expected_deliveries" : "expected_non_deliveries");
                  if (kind)
                  {
                     std::string key = std::string("deliver|") + kind + (sub.empty() ? "" : "|" + sub);
                     out.viol(key, std::string(d) + " selected-logs-mask=" + std::to_string(sel) + ": dest#" + std::to_string(dc.id) + " of log " +
                                      lg.name + " received it " + std::to_string(got) + " time(s), documented: " +
                                      (v == V_PASS ? "exactly once" : v == V_BLOCK ? "not at all" : "at most once") + "; " + descr);
                  }
               }
            }
         }
   }
   out.stat("cases");
   if (out.wantSample()) out.sample(descr.substr(0, 600));
}

// ---------------------------------------------------------------- self test of the model

static int model_selftest()
{
   ModelFilters m;
   // the example of the in-tree documentation/tests: max level `error` accepts fatal and error (stderr),
   // min level `warning` accepts warning and everything more verbose
   m.set(F_MAX, 2, P_IGNORE);
   if (m.pass(1, 1) != V_PASS || m.pass(2, 1) != V_PASS || m.pass(3, 1) != V_BLOCK) return 1;
   if (m.set(F_MAX, 5, P_IGNORE) || m.pass(4, 1) != V_BLOCK) return 2;
   if (m.set(F_MAX, 5, P_REPLACE) || m.pass(4, 1) != V_PASS) return 3;
   if (!m.set(F_MAX, 1, P_EXCEPTION) || m.pass(4, 1) != V_PASS) return 4;
   ModelFilters n;
   n.set(F_MIN, 3, P_IGNORE);
   n.set(F_CLASSES, (1 << 2) | (1 << 6), P_IGNORE);
   if (n.pass(3, 2) != V_PASS || n.pass(2, 2) != V_BLOCK || n.pass(6, 6) != V_PASS || n.pass(6, 5) != V_BLOCK || n.pass(6, 0) != V_BLOCK) return 5;
   if (n.pass(0, 2) != V_UNKNOWN || n.pass(0, 1) != V_BLOCK) return 6;
   return 0;
}

int main(int argc, char** argv)
{
   vh::Args a = vh::parse_args(argc, argv);
   prog.open(a.progress);
   verbose = a.getu("verbose", 0) != 0;
   out.maxSamples = 3;
   if (int rc = model_selftest()) { fprintf(stderr, "model self test failed (%d)\n", rc); return 3; }
   if (a.mode != "configs") { fprintf(stderr, "unknown mode %s\n", a.mode.c_str()); return 3; }
   const uint64_t end = a.start + a.count;
   for (uint64_t idx = a.start; idx < end; ++idx) run_config(a, idx);
   out.finish(a);
   return 0;
}
