// C16 - every delivered log message is rendered exactly as its format definition says.
//
// One case = one format definition (1..10 fields, built through formatting::Creator with the
// stream syntax) attached to a LogDestStream of a log, plus a history of global / scoped /
// message-owned attributes; 10..25 messages are sent through Logging::log() at different points
// of the attribute history.  The text that arrives in the stream is compared with an independent
// renderer that interprets the same sequence of stream operations from the documentation of
// creator.hpp / definition.hpp / log_defs.hpp / log_attributes.hpp:
//   fields in order; the auto separator (if one is set at that moment) before every field but the
//   first; constant text verbatim; width = pad with blanks to at least w characters, on the left
//   unless `left` was given (never truncate); width / left / formatString apply to the next field
//   only; date / time / date_time = strftime( custom format or the default %F / %T / "%F %T") of
//   localtime( timestamp); milli/microseconds zero padded to 3/6 digits; level and class display
//   texts of log_defs.hpp; error number, line, pid in decimal; file name without path; function
//   name and text as stored in the message; attribute = newest value in the message's own
//   attributes (own container, then its parents), else newest global value, else empty; scoped
//   attributes are removed at scope exit.
//
// Not generated (documentation silent or ambiguous): width / alignment / format string in front
// of constant text; a format string in front of a field that is not date / time / date_time; the
// same option twice before one field; empty attribute values; empty custom format; negative
// widths; date formats whose output could exceed 100 bytes.  The text of a thread id field is not
// judged (matched as a wild card of at least the field width).
#include "vh.hpp"

#include <algorithm>
#include <climits>
#include <ctime>
#include <memory>
#include <sstream>

#include "celma/log/detail/log.hpp"
#include "celma/log/detail/log_dest_stream.hpp"
#include "celma/log/detail/log_msg.hpp"
#include "celma/log/detail/log_scoped_attribute.hpp"
#include "celma/log/formatting/creator.hpp"
#include "celma/log/formatting/definition.hpp"
#include "celma/log/formatting/format.hpp"
#include "celma/log/log_attributes.hpp"
#include "celma/log/log_macros.hpp"
#include "celma/log/logging.hpp"

using celma::log::LogClass;
using celma::log::LogLevel;
using celma::log::Logging;
namespace cld = celma::log::detail;
namespace clf = celma::log::formatting;

static vh::Out out;
static vh::Progress prog;
static bool verbose = false;

// ---------------------------------------------------------------- documented vocabulary

enum Kind { K_CONSTANT, K_DATE, K_TIME, K_TIME_MS, K_TIME_US, K_DATETIME, K_PID, K_THREADID, K_LINE, K_FUNC, K_FILE,
            K_LEVEL, K_CLASS, K_ERRNBR, K_TEXT, K_ATTR, K_NKINDS, K_SEPARATOR = K_NKINDS };
static const char* const KIND_NAMES[K_NKINDS + 1] = { "constant", "date", "time", "time_ms", "time_us", "date_time", "pid", "thread_id",
                                                      "line_nbr", "func_name", "filename", "level", "log_class", "error_nbr", "text",
                                                      "attribute", "auto-separator" };
// display texts as documented in log_defs.hpp
static const char* const LEVEL_TEXT[7] = { "undefined", "Fatal Error", "Error", "Warning", "Info", "Debug", "Full Debug" };
static const char* const CLASS_TEXT[7] = { "undefined", "SysCall", "Data", "Communication", "Application", "Accounting", "Operator Action" };

// ---------------------------------------------------------------- definition script

enum OpType { O_WIDTH, O_LEFT, O_FORMAT, O_SEP, O_FIELD };
struct Op { OpType op; int num = 0; Kind kind = K_CONSTANT; std::string str; bool null = false; };

struct Script
{
   bool ctorSepNull = true;
   std::string ctorSep;
   std::vector<Op> ops;
   std::string text() const
   {
      std::string s = "Creator(def";
      if (!ctorSepNull) s += ", \"" + ctorSep + "\"";
      s += ")";
      for (auto& o : ops)
      {
         s += " << ";
         switch (o.op)
         {
         case O_WIDTH: s += std::to_string(o.num); break;
         case O_LEFT: s += "left"; break;
         case O_FORMAT: s += "formatString(\"" + o.str + "\")"; break;
         case O_SEP: s += o.null ? std::string("separator(nullptr)") : "separator(\"" + o.str + "\")"; break;
         case O_FIELD:
            if (o.kind == K_CONSTANT) s += "\"" + vh::printable(o.str) + "\"";
            else if (o.kind == K_ATTR) s += "attribute(\"" + o.str + "\")";
            else s += KIND_NAMES[o.kind];
            break;
         }
      }
      return s;
   }
};

static const char* const DATE_FORMATS[12] = { "%d", "%Y-%m-%d", "%H:%M", "%r", "now: %c", "%d-%h", "%Y-%M", "%j", "%a %b %e",
                                              "%D %T", "%%y=%y %Z", "%s" };
static const char* const CONSTANTS[10] = { "|", " ", ":", "[", "] ", " - ", "100%", "%d %s", "text:", "\t" };
static const char* const ATTR_NAMES[5] = { "color", "shade", "user", "request", "missing" };   // "missing" is never defined

static Script gen_script(vh::Rng& r)
{
   Script s;
   switch (r.below(5))
   {
   case 0: s.ctorSepNull = false; s.ctorSep = ""; break;
   case 1: s.ctorSepNull = false; s.ctorSep = "|"; break;
   case 2: s.ctorSepNull = false; s.ctorSep = ", "; break;
   default: break;   // no separator
   }
   const unsigned nf = 1 + r.below(10);
   // 0: options at random; 1: options before every second field only (pending-option reset probe); 2: no options at all
   const unsigned optMode = r.below(10) < 5 ? 0 : (r.below(10) < 8 ? 1 : 2);
   bool haveThread = false;
   for (unsigned i = 0; i < nf; ++i)
   {
      if (r.chance(1, 12))
      {
         Op o; o.op = O_SEP;
         switch (r.below(4)) { case 0: o.null = true; break; case 1: o.str = "|"; break; case 2: o.str = ", "; break; default: o.str = ":"; break; }
         s.ops.push_back(o);
      }
      Op f; f.op = O_FIELD;
      if (r.chance(1, 5)) { f.kind = K_CONSTANT; f.str = CONSTANTS[r.below(10)]; s.ops.push_back(f); continue; }
      do { f.kind = static_cast<Kind>(1 + r.below(K_NKINDS - 1)); } while (f.kind == K_THREADID && (haveThread || !r.chance(1, 3)));
      if (f.kind == K_THREADID) haveThread = true;
      if (f.kind == K_ATTR) f.str = ATTR_NAMES[r.below(5)];
      const bool opts = optMode == 0 ? r.chance(3, 5) : optMode == 1 ? (i % 2 == 0) : false;
      if (opts)
      {
         std::vector<Op> pending;
         const bool isDate = f.kind == K_DATE || f.kind == K_TIME || f.kind == K_DATETIME;
         if (r.chance(4, 5)) { Op o; o.op = O_WIDTH; o.num = (int)r.below(31); pending.push_back(o); }
         if (r.chance(1, 2)) { Op o; o.op = O_LEFT; pending.push_back(o); }
         if (isDate && r.chance(2, 3)) { Op o; o.op = O_FORMAT; o.str = DATE_FORMATS[r.below(12)]; pending.push_back(o); }
         for (size_t k = pending.size(); k > 1; --k) std::swap(pending[k - 1], pending[r.below(k)]);
         for (auto& o : pending) s.ops.push_back(o);
      }
      s.ops.push_back(f);
   }
   return s;
}

static void build_real(const Script& s, clf::Definition& def)
{
   clf::Creator c(def, s.ctorSepNull ? nullptr : s.ctorSep.c_str());
   for (auto& o : s.ops)
   {
      switch (o.op)
      {
      case O_WIDTH: c << o.num; break;
      case O_LEFT: c << clf::left; break;
      case O_FORMAT: c << clf::formatString(o.str); break;
      case O_SEP: c << clf::separator(o.null ? nullptr : o.str.c_str()); break;
      case O_FIELD:
         switch (o.kind)
         {
         case K_CONSTANT: c << o.str; break;
         case K_DATE: c << clf::date; break;
         case K_TIME: c << clf::time; break;
         case K_TIME_MS: c << clf::time_ms; break;
         case K_TIME_US: c << clf::time_us; break;
         case K_DATETIME: c << clf::date_time; break;
         case K_PID: c << clf::pid; break;
         case K_THREADID: c << clf::thread_id; break;
         case K_LINE: c << clf::line_nbr; break;
         case K_FUNC: c << clf::func_name; break;
         case K_FILE: c << clf::filename; break;
         case K_LEVEL: c << clf::level; break;
         case K_CLASS: c << clf::log_class; break;
         case K_ERRNBR: c << clf::error_nbr; break;
         case K_TEXT: c << clf::text; break;
         case K_ATTR: c << clf::attribute(o.str); break;
         default: break;
         }
         break;
      }
   }
}

// ---------------------------------------------------------------- model: attributes

typedef std::vector<std::pair<std::string, std::string>> AttrList;

static bool attr_find(const AttrList& l, const std::string& name, std::string& value)
{
   for (size_t i = l.size(); i-- > 0;)
      if (l[i].first == name) { value = l[i].second; return true; }
   return false;
}
static void attr_remove_newest(AttrList& l, const std::string& name)
{
   for (size_t i = l.size(); i-- > 0;)
      if (l[i].first == name) { l.erase(l.begin() + i); return; }
}

// ---------------------------------------------------------------- model: message + renderer

struct MsgModel
{
   std::string fileGiven, funcStored, text;
   int line = 0, errnbr = 0, level = 0, cls = 0;
   time_t ts = 0;
   unsigned ms = 0, us = 0;
   std::vector<const AttrList*> own;   // own container first, then its parents
};

struct Segment { std::string text; Kind kind; bool wild = false; int width = 0; };

static std::string pad(const std::string& v, int width, bool left)
{
   if (width <= 0 || v.size() >= (size_t)width) return v;
   std::string blanks((size_t)width - v.size(), ' ');
   return left ? v + blanks : blanks + v;
}

static std::string zero_padded(unsigned v, int digits)
{
   std::string s = std::to_string(v);
   while ((int)s.size() < digits) s.insert(s.begin(), '0');
   return s;
}

static std::vector<Segment> model_render(const Script& s, const MsgModel& m, const AttrList& global)
{
   std::vector<Segment> segs;
   std::string sep = s.ctorSepNull ? "" : s.ctorSep;
   int width = 0; bool left = false; std::string fmt;
   bool first = true;
   for (auto& o : s.ops)
   {
      if (o.op == O_WIDTH) { width = o.num; continue; }
      if (o.op == O_LEFT) { left = true; continue; }
      if (o.op == O_FORMAT) { fmt = o.str; continue; }
      if (o.op == O_SEP) { sep = o.null ? "" : o.str; continue; }
      if (!first && !sep.empty()) segs.push_back(Segment{ sep, K_SEPARATOR });
      first = false;
      std::string v;
      bool wild = false;
      switch (o.kind)
      {
      case K_CONSTANT: v = o.str; break;
      case K_DATE: case K_TIME: case K_DATETIME:
         {
            const char* f = !fmt.empty() ? fmt.c_str() : o.kind == K_DATE ? "%F" : o.kind == K_TIME ? "%T" : "%F %T";
            struct tm tmv;
            localtime_r(&m.ts, &tmv);
            char buf[512];
            size_t n = strftime(buf, sizeof buf, f, &tmv);
            v.assign(buf, n);
         }
         break;
      case K_TIME_MS: v = zero_padded(m.ms, 3); break;
      case K_TIME_US: v = zero_padded(m.us, 6); break;
      case K_PID: v = std::to_string((long)getpid()); break;
      case K_THREADID: wild = true; break;
      case K_LINE: v = std::to_string(m.line); break;
      case K_FUNC: v = m.funcStored; break;
      case K_FILE:
         {
            size_t p = m.fileGiven.rfind('/');
            v = p == std::string::npos ? m.fileGiven : m.fileGiven.substr(p + 1);
         }
         break;
      case K_LEVEL: v = LEVEL_TEXT[m.level]; break;
      case K_CLASS: v = CLASS_TEXT[m.cls]; break;
      case K_ERRNBR: v = std::to_string(m.errnbr); break;
      case K_TEXT: v = m.text; break;
      case K_ATTR:
         {
            bool found = false;
            for (auto l : m.own) if (attr_find(*l, o.str, v)) { found = true; break; }
            if (!found && !attr_find(global, o.str, v)) v.clear();
         }
         break;
      default: break;
      }
      Segment sg{ wild ? std::string() : pad(v, width, left), o.kind, wild, width };
      segs.push_back(sg);
      width = 0; left = false; fmt.clear();
   }
   return segs;
}

/// compare; @return -1 if equal, else index of the segment where the first difference lies
static int compare(const std::vector<Segment>& segs, const std::string& got, std::string& expectedText)
{
   size_t wildAt = segs.size();
   std::string pre, post;
   for (size_t i = 0; i < segs.size(); ++i)
   {
      if (segs[i].wild) { wildAt = i; continue; }
      (wildAt == segs.size() ? pre : post) += segs[i].text;
   }
   if (wildAt == segs.size())
   {
      expectedText = pre;
      if (got == pre) return -1;
      size_t pos = 0;
      while (pos < got.size() && pos < pre.size() && got[pos] == pre[pos]) ++pos;
      size_t acc = 0;
      for (size_t i = 0; i < segs.size(); ++i)
      {
         acc += segs[i].text.size();
         if (pos < acc) return (int)i;
      }
      return (int)segs.size() - 1;   // surplus output after the last field
   }
   expectedText = pre + "<thread id>" + post;
   const size_t minMid = std::max(1, segs[wildAt].width);
   if (got.size() >= pre.size() + post.size() + minMid && got.compare(0, pre.size(), pre) == 0 &&
       got.compare(got.size() - post.size(), post.size(), post) == 0)
   {
      // the thread id itself: no blanks inside, padding only at one side
      return -1;
   }
   // locate: prefix part or suffix part
   if (got.compare(0, std::min(pre.size(), got.size()), pre) != 0 || got.size() < pre.size())
   {
      size_t pos = 0;
      while (pos < got.size() && pos < pre.size() && got[pos] == pre[pos]) ++pos;
      size_t acc = 0;
      for (size_t i = 0; i < wildAt; ++i)
      {
         acc += segs[i].text.size();
         if (pos < acc) return (int)i;
      }
      return (int)wildAt;
   }
   // difference in the part after the thread id: first differing segment counted from the end
   size_t k = 0;
   while (k < post.size() && k < got.size() && got[got.size() - 1 - k] == post[post.size() - 1 - k]) ++k;
   if (k >= post.size()) return (int)wildAt;
   size_t acc = 0;
   for (size_t i = segs.size(); i-- > wildAt + 1;)
   {
      acc += segs[i].text.size();
      if (k < acc) return (int)i;
   }
   return (int)wildAt;
}

// ---------------------------------------------------------------- one case

static const time_t TS_POOL[] = {
   0, 86399, 86400, 1506525448,          // epoch, first midnight, the timestamp of the in-tree example
   951782399, 951782400,                 // 2000-02-28 23:59:59 / 2000-02-29 00:00:00 UTC
   1488326399, 1488326400,               // 2017-02-28 23:59:59 / 2017-03-01
   1577836799, 1577836800,               // 2019-12-31 23:59:59 / 2020-01-01
   1582934400, 1583020799,               // 2020-02-29 00:00:00 / 23:59:59
   1616893199, 1616893200,               // 2021-03-28 00:59:59 / 01:00:00 UTC (DST begins in Zurich)
   1635641999, 1635642000,               // 2021-10-31 00:59:59 / 01:00:00 UTC (DST ends in Zurich)
   1640991599, 1640991600,               // 2021-12-31 22:59:59 / 23:00:00 UTC (year boundary in Zurich)
   2147483647, 4102444800,               // 2038-01-19 03:14:07, 2100-01-01
   978307199, 1230767999                 // 2000-12-31 23:59:59, 2008-12-31 23:59:59
};

static const char* const WORDS[] = { "disk", "full", "connection", "lost", "to", "server", "user", "logged", "in", "retry", "42", "n/a",
                                     "100%", "a|b", "x", "Ende" };

static std::string gen_text(vh::Rng& r, const char*& shape)
{
   switch (r.below(6))
   {
   case 0: shape = "text_empty"; return "";
   case 1: shape = "text_one_word"; return WORDS[r.below(16)];
   case 2: case 3:
      {
         shape = "text_multi_word";
         std::string s;
         unsigned n = 2 + r.below(8);
         for (unsigned i = 0; i < n; ++i) { if (i) s += ' '; s += WORDS[r.below(16)]; }
         return s;
      }
   case 4:
      {
         shape = "text_long";
         std::string s;
         size_t len = 200 + r.below(1800);
         while (s.size() < len) { s += WORDS[r.below(16)]; s += ' '; }
         return s;
      }
   default:
      shape = "text_leading_trailing_blanks";
      return std::string("  ") + WORDS[r.below(16)] + "  ";
   }
}

struct Ctx
{
   const vh::Args* a;
   uint64_t idx;
   vh::Rng* r;
   Script script;
   std::string scriptText;
   celma::log::id_t logId;
   std::ostringstream* stream;
   AttrList global;          // model of the global attributes (incl. scoped ones)
   std::string tz;
   unsigned msgNo = 0, sent = 0;
   int valueNo = 0;
};

static void send_one(Ctx& c, unsigned depth)
{
   vh::Rng& r = *c.r;
   static const char* const FILES[] = { "file.cpp", "/abs/path/to/source_file.cpp", "rel/dir/x.hpp", "./main.c", "a" };
   static const char* const FUNCS[] = { "main", "test_one", "int ns::Klass::method(int, char**)", "void f()",
                                        "virtual bool celma::log::X::pass(const LogMsg&) const" };
   MsgModel m;
   m.fileGiven = FILES[r.below(5)];
   const char* func = FUNCS[r.below(5)];
   switch (r.below(5)) { case 0: m.line = 0; break; case 1: m.line = INT_MAX; break; default: m.line = (int)r.below(100000); break; }
   cld::LogMsg msg(m.fileGiven, func, m.line);
   m.funcStored = msg.getFunctionName();   // the extraction from __PRETTY_FUNCTION__ is not part of this property
   const unsigned lc = (unsigned)((c.idx * 31 + c.msgNo * 7 + r.below(49)) % 49);
   m.level = lc / 7; m.cls = lc % 7;
   msg.setLevel(static_cast<LogLevel>(m.level));
   msg.setClass(static_cast<LogClass>(m.cls));
   switch (r.below(6)) { case 0: m.errnbr = 0; break; case 1: m.errnbr = -1; break; case 2: m.errnbr = INT_MIN; break; case 3: m.errnbr = INT_MAX; break;
                         default: m.errnbr = (int)r.below(200) ; break; }
   msg.setErrorNumber(m.errnbr);
   const char* shape = "";
   m.text = gen_text(r, shape);
   msg.setText(m.text);
   const char* tsKind;
   switch (r.below(8))
   {
   case 0: case 1: case 2: case 3:
      m.ts = TS_POOL[r.below(sizeof TS_POOL / sizeof TS_POOL[0])] + (time_t)r.range(-1, 1);
      if (m.ts < 0) m.ts = 0;
      msg.setTimestamp(m.ts); tsKind = "ts_boundary"; break;
   case 4: case 5:
      m.ts = (time_t)r.below(0x7fffffffULL); msg.setTimestamp(m.ts); tsKind = "ts_random"; break;
   default:
      msg.setTimestamp();   // now, with a sub-second part
      m.ts = msg.getTimestamp(); tsKind = "ts_now"; break;
   }
   m.ms = msg.getTimeMilliSecs();
   m.us = msg.getTimeMicroSecs();

   // message-owned attributes: own container, optionally with one or two parents
   std::unique_ptr<celma::log::LogAttributes> outer2, outer1, own;
   AttrList lOuter2, lOuter1, lOwn;
   const unsigned ownMode = r.below(5);   // 0,1: none; 2: own; 3: own + parent; 4: own + parent + grandparent
   auto fill = [&](celma::log::LogAttributes& la, AttrList& l, unsigned n) {
      for (unsigned i = 0; i < n; ++i)
      {
         std::string name = ATTR_NAMES[r.below(4)];
         std::string value = "own" + std::to_string(++c.valueNo);
         la.addAttribute(name, value);
         l.emplace_back(name, value);
      }
   };
   if (ownMode >= 4) { outer2.reset(new celma::log::LogAttributes()); fill(*outer2, lOuter2, 1 + r.below(2)); }
   if (ownMode >= 3) { outer1.reset(outer2 ? new celma::log::LogAttributes(outer2.get()) : new celma::log::LogAttributes()); fill(*outer1, lOuter1, r.below(3)); }
   if (ownMode >= 2)
   {
      own.reset(outer1 ? new celma::log::LogAttributes(outer1.get()) : new celma::log::LogAttributes());
      fill(*own, lOwn, r.below(4));
      msg.setAttributes(*own);
      m.own.push_back(&lOwn);
      if (outer1) m.own.push_back(&lOuter1);
      if (outer2) m.own.push_back(&lOuter2);
   }

   char d[300];
   snprintf(d, sizeof d, "format msg#%u depth=%u level=%s class=%s ts=%ld tz=%s", c.msgNo, depth, LEVEL_TEXT[m.level], CLASS_TEXT[m.cls], (long)m.ts, c.tz.c_str());
   prog.descr(d);
   c.stream->str("");
   Logging::instance().log(c.logId, msg);
   const std::string got = c.stream->str();
   ++c.msgNo; ++c.sent;

   const std::vector<Segment> segs = model_render(c.script, m, c.global);
   std::string expected;
   const int bad = compare(segs, got, expected);
   out.stat("messages");
   out.stat(shape);
   out.stat(tsKind);
   out.stat(std::string("scope_depth_") + std::to_string(depth));
   out.stat(std::string("level_") + std::to_string(m.level));
   out.stat(std::string("class_") + std::to_string(m.cls));
   out.stat(ownMode < 2 ? "msg_without_own_attributes" : ownMode == 2 ? "msg_with_own_attributes" : "msg_with_own_and_parent_attributes");
   for (auto& sg : segs)
   {
      out.stat(std::string("field_") + KIND_NAMES[sg.kind]);
      if (sg.wild) out.stat("abstain_thread_id_text");
   }
   std::string mdescr = std::string(d + 7) + " file=" + m.fileGiven + " line=" + std::to_string(m.line) + " errnbr=" + std::to_string(m.errnbr) +
                        " text='" + vh::printable(m.text.substr(0, 60)) + (m.text.size() > 60 ? "...'(" + std::to_string(m.text.size()) + ")" : "'");
   mdescr += " own=[";
   for (auto l : m.own) { for (auto& kv : *l) mdescr += kv.first + "=" + kv.second + ","; mdescr += ";"; }
   mdescr += "] global=[";
   for (auto& kv : c.global) mdescr += kv.first + "=" + kv.second + ",";
   mdescr += "]";
   out.distinct(vh::hash_str(mdescr, vh::hash_str(c.scriptText)));
   if (verbose) printf("MSG %s\n  got      '%s'\n  expected '%s'\n", mdescr.c_str(), vh::printable(got.substr(0, 400)).c_str(), vh::printable(expected.substr(0, 400)).c_str());
   if (bad >= 0)
   {
      const Segment& sg = segs[bad];
      out.viol(std::string("mismatch|") + KIND_NAMES[sg.kind],
               "definition: " + c.scriptText + " ; message: " + mdescr + " ; got '" + vh::printable(got.substr(0, 300)) + "' expected '" +
                  vh::printable(expected.substr(0, 300)) + "' (first difference in field #" + std::to_string(bad) + " " + KIND_NAMES[sg.kind] + ")");
   }
   else if (out.wantSample() && c.msgNo == 3)
      out.sample(c.scriptText + " => '" + vh::printable(got.substr(0, 200)) + "'");
}

static void scopes(Ctx& c, unsigned depth, unsigned maxDepth)
{
   vh::Rng& r = *c.r;
   send_one(c, depth);
   if (depth >= maxDepth) return;
   // a scope with (mostly) a scoped attribute whose name may shadow outer ones
   const bool withAttr = r.chance(5, 6);
   const bool viaMacro = r.chance(1, 2);
   const std::string name = ATTR_NAMES[r.below(4)];
   std::string value = "scoped" + std::to_string(++c.valueNo) + "@" + std::to_string(depth + 1);
   {
      // sometimes the scope re-defines the attribute with the value that is visible anyway (outer scope or global): at the end
      // of the scope exactly this definition goes away again, the outer one stays
      std::string visible;
      if (r.chance(1, 4) && attr_find(c.global, name, visible) && !visible.empty())
      {
         value = visible;
         out.stat("scoped_attributes_with_the_visible_value");
      }
   }
   auto body = [&]() {
      // a second scoped attribute in the same scope, sometimes with the same name
      std::unique_ptr<cld::ScopedAttribute> sb;
      std::string nameB;
      if (withAttr && r.chance(1, 4))
      {
         nameB = r.chance(1, 2) ? name : std::string(ATTR_NAMES[r.below(4)]);
         const std::string valueB = "scopedB" + std::to_string(++c.valueNo);
         sb.reset(new cld::ScopedAttribute(nameB, valueB));
         c.global.emplace_back(nameB, valueB);
         out.stat("scoped_attributes");
      }
      scopes(c, depth + 1, maxDepth);
      if (r.chance(1, 2)) send_one(c, depth + 1);
      prog.descr("scope exit");
      if (sb) { sb.reset(); attr_remove_newest(c.global, nameB); }
   };
   prog.descr("scope enter");
   if (!withAttr) body();
   else if (viaMacro)
   {
      {
         LOG_ATTRIBUTE(name, value);   // the documented way to create a scoped attribute
         c.global.emplace_back(name, value);
         out.stat("scoped_attributes");
         out.stat("scoped_attributes_via_LOG_ATTRIBUTE");
         body();
      }
      attr_remove_newest(c.global, name);
   }
   else
   {
      {
         cld::ScopedAttribute sa(name, value);
         c.global.emplace_back(name, value);
         out.stat("scoped_attributes");
         body();
      }
      attr_remove_newest(c.global, name);
   }
   send_one(c, depth);   // after the scope: its attributes are gone
}

static void run_case(const vh::Args& a, uint64_t idx)
{
   vh::Rng r(vh::mix(a.seed, vh::mix(vh::hash_str(a.mode), idx)));
   out.curIdx = idx;
   prog.set(idx, "define");
   Ctx c;
   c.a = &a; c.idx = idx; c.r = &r;
   c.tz = r.chance(1, 4) ? "Europe/Zurich" : "UTC";
   setenv("TZ", c.tz.c_str(), 1);
   tzset();
   out.stat(c.tz == "UTC" ? "tz_utc" : "tz_zurich");
   c.script = gen_script(r);
   c.scriptText = c.script.text();
   if (verbose) printf("DEFINITION %s\n", c.scriptText.c_str());

   Logging::reset();
   clf::Definition def;
   build_real(c.script, def);
   std::ostringstream stream;
   c.stream = &stream;
   c.logId = Logging::instance().findCreateLog("formatted");
   cld::ILogDest* dest = Logging::instance().getLog(c.logId)->addDestination("stream", new cld::LogDestStream(stream));
   dest->setFormatter(new clf::Format(def));

   // global attributes
   unsigned ng = r.below(4);
   for (unsigned i = 0; i < ng; ++i)
   {
      std::string name = ATTR_NAMES[r.below(4)], value = "global" + std::to_string(++c.valueNo);
      Logging::instance().addAttribute(name, value);
      c.global.emplace_back(name, value);
      out.stat("global_attributes");
   }
   const unsigned maxDepth = r.below(5);
   scopes(c, 0, maxDepth);
   if (!c.global.empty() && r.chance(1, 2))
   {
      // documented: removes the attribute with this name that was added last
      const std::string name = c.global[r.below(c.global.size())].first;
      prog.descr("removeAttribute");
      Logging::instance().removeAttribute(name);
      attr_remove_newest(c.global, name);
      out.stat("global_attributes_removed");
      send_one(c, 0);
   }
   while (c.sent < 6) send_one(c, 0);
   out.stat("cases");
   out.stat(std::string("definitions_with_fields_") + std::to_string(std::count_if(c.script.ops.begin(), c.script.ops.end(), [](const Op& o) { return o.op == O_FIELD; })));
}

// ---------------------------------------------------------------- self test of the model

static int model_selftest()
{
   setenv("TZ", "UTC", 1);
   tzset();
   // the documented / in-tree examples
   Script s;
   { Op o; o.op = O_WIDTH; o.num = 20; s.ops.push_back(o); }
   { Op o; o.op = O_LEFT; s.ops.push_back(o); }
   { Op o; o.op = O_FIELD; o.kind = K_FILE; s.ops.push_back(o); }
   { Op o; o.op = O_FIELD; o.kind = K_CONSTANT; o.str = ":"; s.ops.push_back(o); }
   { Op o; o.op = O_WIDTH; o.num = 6; s.ops.push_back(o); }
   { Op o; o.op = O_FIELD; o.kind = K_LINE; s.ops.push_back(o); }
   { Op o; o.op = O_FIELD; o.kind = K_CONSTANT; o.str = " | "; s.ops.push_back(o); }
   { Op o; o.op = O_FIELD; o.kind = K_ATTR; o.str = "shade"; s.ops.push_back(o); }
   { Op o; o.op = O_FIELD; o.kind = K_CONSTANT; o.str = "-"; s.ops.push_back(o); }
   { Op o; o.op = O_FIELD; o.kind = K_DATETIME; s.ops.push_back(o); }
   MsgModel m;
   m.fileGiven = "dir/filename.cpp"; m.line = 1234; m.ts = 1506525448;
   AttrList g; g.emplace_back("shade", "light"); g.emplace_back("shade", "dark");
   std::string exp;
   std::vector<Segment> segs = model_render(s, m, g);
   if (compare(segs, "filename.cpp        :  1234 | dark-2017-09-27 15:17:28", exp) != -1) { fprintf(stderr, "model: '%s'\n", exp.c_str()); return 1; }
   if (compare(segs, "filename.cpp        :  1234 | light-2017-09-27 15:17:28", exp) != 4) return 2;
   Script t; t.ctorSepNull = false; t.ctorSep = "|";
   { Op o; o.op = O_FIELD; o.kind = K_CONSTANT; o.str = "one"; t.ops.push_back(o); }
   { Op o; o.op = O_FIELD; o.kind = K_CONSTANT; o.str = "two"; t.ops.push_back(o); }
   { Op o; o.op = O_SEP; o.str = ":"; t.ops.push_back(o); }
   { Op o; o.op = O_FIELD; o.kind = K_THREADID; t.ops.push_back(o); }
   { Op o; o.op = O_FIELD; o.kind = K_LEVEL; t.ops.push_back(o); }
   m.level = 3;
   segs = model_render(t, m, g);
   if (compare(segs, "one|two:0x7f00:Warning", exp) != -1) return 3;
   if (compare(segs, "one|two::Warning", exp) == -1) return 4;
   if (compare(segs, "one|two:0x7f00:Warnin", exp) == -1) return 5;
   if (pad("abc", 2, false) != "abc" || pad("", 3, true) != "   " || pad("ab", 4, false) != "  ab") return 6;
   return 0;
}

int main(int argc, char** argv)
{
   vh::Args a = vh::parse_args(argc, argv);
   prog.open(a.progress);
   verbose = a.getu("verbose", 0) != 0;
   out.maxSamples = 3;
   if (int rc = model_selftest()) { fprintf(stderr, "model self test failed (%d)\n", rc); return 3; }
   if (a.mode != "render") { fprintf(stderr, "unknown mode %s\n", a.mode.c_str()); return 3; }
   const uint64_t end = a.start + a.count;
   for (uint64_t idx = a.start; idx < end; ++idx) run_case(a, idx);
   out.finish(a);
   return 0;
}
