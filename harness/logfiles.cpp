// C15 - rolling log files keep the most recent messages, complete and in order.
//
// Drives celma::log::files::Handler< Counted | MaxSize> with every history over the alphabet
// {msg-short, msg-mid, msg-long, reopen} up to a bounded length, for 24 configurations
// (Counted: 1..3 entries, MaxSize: 6/8/11/17/30 bytes, each with 1..3 generations), each history in a
// fresh directory.  After EVERY event the log directory is listed, all generations are read and an
// offline checker compares the observed state with the previous state and the list of acknowledged
// messages (see check*() below).
//
// modes
//   hist   one case = (configuration, history); no faults
//   crash  one case = (configuration, history); first a fault-free run that counts the hits of
//          CELMA_VERIF_POINT() per event, then for every event i and every n <= hits[i] a separate run
//          (fresh directory) in which event i is executed by a forked child that _exit()s at the n-th
//          hit; the parent checks the state left behind, re-opens and continues the history.
//
// case index -> (configuration, history):  cfg = idx % 24,  h = ((idx / 24) * 1000003 + seed * 7919) % N,
//   N = 4 + 4^2 + .. + 4^maxlen, histories ordered by length, then lexicographically (S < M < L < R).
//
// message texts: serial k (1-based, 'A'+k-1) + filler + ';' - short 2, mid 4, long 7 characters, i.e.
// 3 / 5 / 8 bytes on disk including the line terminator.  All fit into an empty file of every limit except the long message with limit 6.

#include "vh.hpp"

#include <algorithm>
#include <cerrno>
#include <csignal>
#include <dirent.h>
#include <memory>
#include <sys/stat.h>
#include <sys/types.h>
#include <sys/wait.h>

#include "celma/log/detail/i_format_stream.hpp"
#include "celma/log/detail/log_msg.hpp"
#include "celma/log/filename/creator.hpp"
#include "celma/log/filename/definition.hpp"
#include "celma/log/files/counted.hpp"
#include "celma/log/files/handler.hpp"
#include "celma/log/files/max_size.hpp"

namespace clf = celma::log::files;
namespace clfn = celma::log::filename;
using celma::log::detail::LogMsg;

static vh::Progress prog;
static vh::Out out;
static bool verbose = false;
static bool strictReopen = true;   // --strict_reopen 0: abstain on Counted's documented roll at every re-open

// ------------------------------------------------------------------ hook (crash points)

static const char* const POINTS[] = {"open:file-opened", "write:begin", "write:before-write", "write:after-write",
                                     "write:done", "reopen:closed", "reopen:rolled", "roll:before-rename",
                                     "roll:after-rename", "other"};
static const int NPOINTS = sizeof(POINTS) / sizeof(POINTS[0]);
static unsigned g_hits = 0;      // hits since the last reset
static unsigned g_crashAt = 0;   // != 0: _exit at this hit (only ever set in a forked child)

static int pointId(const char* name)
{
   for (int i = 0; i < NPOINTS - 1; ++i)
      if (strcmp(POINTS[i], name) == 0) return i;
   return NPOINTS - 1;
}

extern "C" void celma_verif_point(const char* name)
{
   ++g_hits;
   if (g_crashAt != 0 && g_hits == g_crashAt) _exit(100 + pointId(name));
}

// ------------------------------------------------------------------ scratch directory

static char g_root[512] = "";

static void rmFilesIn(const char* dir)
{
   DIR* d = opendir(dir);
   if (!d) return;
   while (dirent* e = readdir(d))
   {
      if (strcmp(e->d_name, ".") == 0 || strcmp(e->d_name, "..") == 0) continue;
      char p[1024];
      snprintf(p, sizeof p, "%s/%s", dir, e->d_name);
      if (unlink(p) != 0)
      {
         // one level of sub-directories (the per-case directories)
         DIR* d2 = opendir(p);
         if (d2)
         {
            while (dirent* e2 = readdir(d2))
            {
               if (strcmp(e2->d_name, ".") == 0 || strcmp(e2->d_name, "..") == 0) continue;
               char p2[1600];
               snprintf(p2, sizeof p2, "%s/%s", p, e2->d_name);
               unlink(p2);
            }
            closedir(d2);
            rmdir(p);
         }
      }
   }
   closedir(d);
}

static void removeRoot()
{
   if (g_root[0])
   {
      rmFilesIn(g_root);
      rmdir(g_root);
      g_root[0] = 0;
   }
}

static void onAbort(int sig)
{
   removeRoot();
   signal(sig, SIG_DFL);
   raise(sig);
}

// ------------------------------------------------------------------ configuration / history

struct Cfg
{
   bool counted;
   unsigned limit;
   int gens;
   const char* policy() const { return counted ? "counted" : "maxsize"; }
   std::string str() const
   {
      return std::string(policy()) + " limit=" + std::to_string(limit) + " gens=" + std::to_string(gens);
   }
};

// limit 6: the long message (8 bytes on disk) does not even fit into an empty file - it gets a generation of its own
static const unsigned MAXSIZE_LIMITS[5] = {6, 8, 11, 17, 30};
static const int NCFG = 24;

static Cfg cfgOf(unsigned c)
{
   Cfg r;
   if (c < 9) { r.counted = true; r.limit = 1 + c / 3; r.gens = 1 + c % 3; }
   else { c -= 9; r.counted = false; r.limit = MAXSIZE_LIMITS[c / 3]; r.gens = 1 + c % 3; }
   return r;
}

enum Ev { SHORT = 0, MID = 1, LONG = 2, REOPEN = 3 };
static const char EVCH[] = "SMLR";
static const char* const EVNAME[] = {"msg-short", "msg-mid", "msg-long", "reopen"};
static const unsigned TEXTLEN[3] = {2, 4, 7};

static uint64_t nHistories(unsigned maxlen)
{
   uint64_t n = 0, p = 1;
   for (unsigned l = 1; l <= maxlen; ++l) { p *= 4; n += p; }
   return n;
}

static std::vector<Ev> historyOf(uint64_t h, unsigned maxlen)
{
   uint64_t p = 4;
   unsigned len = 1;
   while (len < maxlen && h >= p) { h -= p; p *= 4; ++len; }
   std::vector<Ev> r(len);
   for (unsigned i = 0; i < len; ++i) { r[len - 1 - i] = static_cast<Ev>(h % 4); h /= 4; }
   return r;
}

static std::string histStr(const std::vector<Ev>& h)
{
   std::string s;
   for (Ev e : h) s += EVCH[e];
   return s;
}

static std::string textOf(unsigned serial, Ev e)
{
   std::string t(1, static_cast<char>('A' + serial - 1));
   t.append(TEXTLEN[e] - 2, e == MID ? 'm' : 'l');
   t += ';';
   return t;
}

// ------------------------------------------------------------------ the object under observation

/// formatter that prints only the text: the line on disk is exactly text + '\n'
class TextOnly final : public celma::log::detail::IFormatStream
{
   void format(std::ostream& o, const LogMsg& msg) const override { o << msg.getText(); }
};

struct Sink
{
   virtual ~Sink() = default;
   virtual void msg(const LogMsg& m) = 0;
};

template <typename P> struct SinkT final : Sink
{
   clf::Handler<P> h;
   explicit SinkT(P* p) : h(p) { h.setFormatter(new TextOnly()); }
   void msg(const LogMsg& m) override { h.handleMessage(m); }
};

static std::unique_ptr<Sink> makeSink(const Cfg& c, const std::string& dir)
{
   clfn::Definition def;
   clfn::Creator creator(def);
   creator << dir << "/log." << clfn::number << ".txt";
   if (c.counted) return std::unique_ptr<Sink>(new SinkT<clf::Counted>(new clf::Counted(def, c.limit, c.gens)));
   return std::unique_ptr<Sink>(new SinkT<clf::MaxSize>(new clf::MaxSize(def, c.limit, c.gens)));
}

// ------------------------------------------------------------------ observation: the directory

using State = std::map<int, std::string>;   // generation number -> content

static bool readState(const std::string& dir, State& st, std::string& strange)
{
   st.clear();
   DIR* d = opendir(dir.c_str());
   if (!d) return false;
   while (dirent* e = readdir(d))
   {
      std::string n = e->d_name;
      if (n == "." || n == "..") continue;
      int nr = -1;
      if (n.size() > 8 && n.size() < 16 && n.compare(0, 4, "log.") == 0 && n.compare(n.size() - 4, 4, ".txt") == 0)
      {
         const std::string digits = n.substr(4, n.size() - 8);
         if (digits.find_first_not_of("0123456789") == std::string::npos) nr = atoi(digits.c_str());
      }
      if (nr < 0 || n != "log." + std::to_string(nr) + ".txt")
      {
         strange = n;
         continue;
      }
      std::string content;
      FILE* f = fopen((dir + "/" + n).c_str(), "rb");
      if (f)
      {
         char buf[512];
         size_t k;
         while ((k = fread(buf, 1, sizeof buf, f)) > 0) content.append(buf, k);
         fclose(f);
      }
      st[nr] = content;
   }
   closedir(d);
   return true;
}

static std::string stateStr(const State& st)
{
   std::string s;
   for (auto it = st.rbegin(); it != st.rend(); ++it)
   {
      std::string c = it->second;
      for (auto& ch : c) if (ch == '\n') ch = '|';
      s += "[" + std::to_string(it->first) + "]=" + vh::printable(c) + " ";
   }
   return s.empty() ? "(no files)" : s;
}

static const std::string& gen(const State& st, int nr)
{
   static const std::string empty;
   auto it = st.find(nr);
   return it == st.end() ? empty : it->second;
}

static unsigned nLines(const std::string& s)
{
   unsigned n = 0;
   for (char c : s) if (c == '\n') ++n;
   if (!s.empty() && s.back() != '\n') ++n;
   return n;
}

/// a state in which an empty generation 0 and a missing generation 0 are the same
static State norm(State st)
{
   auto it = st.find(0);
   if (it != st.end() && it->second.empty()) st.erase(it);
   return st;
}

/// what the documented rolling does to the files: generation n-1 becomes n (a missing source leaves
/// the destination alone), the oldest is overwritten; with a single generation the file is started anew
static State rolled(const State& prev, int gens)
{
   State st = prev;
   for (int nr = gens - 1; nr > 0; --nr)
   {
      auto it = st.find(nr - 1);
      if (it == st.end()) continue;
      st[nr] = it->second;
      st.erase(nr - 1);
   }
   st.erase(0);
   return st;
}

// ------------------------------------------------------------------ the checker

struct Run
{
   Cfg cfg;
   std::vector<Ev> hist;
   std::string dir;
   std::unique_ptr<Sink> sink;
   State prev;                        // state after the previous event
   std::vector<std::string> acked;    // texts of the acknowledged messages, in order
   unsigned serial = 0;
   unsigned step = 0;
   std::string what;                  // description of the current event for the details
   bool failed = false;               // an exception ended this run
   unsigned nviol = 0;

   void viol(const std::string& pred, const std::string& detail, const State& cur)
   {
      ++nviol;
      out.viol(std::string(cfg.policy()) + "|" + pred,
               cfg.str() + " history=" + histStr(hist) + " step=" + std::to_string(step) + " (" + what + "): " +
                  detail + "; before: " + stateStr(prev) + "after: " + stateStr(cur));
      if (verbose) printf("   !! %s %s\n", pred.c_str(), detail.c_str());
   }

   /// lines of all generations oldest -> newest as indices into `known`; reports incomplete, unknown
   /// and duplicated lines
   std::vector<int> parse(const State& st, const std::vector<std::string>& known, bool report, const State& cur)
   {
      std::vector<int> seq;
      std::vector<unsigned> seen(known.size(), 0);
      for (auto it = st.rbegin(); it != st.rend(); ++it)
      {
         const std::string& c = it->second;
         size_t pos = 0;
         while (pos < c.size())
         {
            size_t nl = c.find('\n', pos);
            if (nl == std::string::npos)
            {
               if (report) viol("incomplete-line", "generation " + std::to_string(it->first) +
                                " ends with an unterminated line '" + vh::printable(c.substr(pos)) + "'", cur);
               break;
            }
            std::string line = c.substr(pos, nl - pos);
            pos = nl + 1;
            int idx = -1;
            for (size_t k = 0; k < known.size(); ++k)
               if (known[k] == line) { idx = static_cast<int>(k); break; }
            if (idx < 0)
            {
               if (report) viol("corrupt-line", "generation " + std::to_string(it->first) + " contains the line '" +
                                vh::printable(line) + "' which is not a message that was written", cur);
               continue;
            }
            if (seen[idx]++ && report)
               viol("duplicate-line", "message '" + line + "' is stored more than once", cur);
            seq.push_back(idx);
         }
      }
      return seq;
   }

   /// structure, limits, order/contiguity
   void invariants(const State& cur, const std::vector<int>& seq)
   {
      if (static_cast<int>(cur.size()) > cfg.gens || (!cur.empty() && cur.rbegin()->first >= cfg.gens))
         viol("too-many-generations", std::to_string(cur.size()) + " files, highest number " +
              std::to_string(cur.empty() ? 0 : cur.rbegin()->first) + ", configured generations " +
              std::to_string(cfg.gens), cur);
      for (auto& kv : cur)
      {
         uint64_t used = cfg.counted ? nLines(kv.second) : kv.second.size();
         // a single message that is longer than the byte limit cannot be stored in any other way
         if (used > cfg.limit && !cfg.counted && nLines(kv.second) == 1) { out.stat("single_overlong_message_generation"); continue; }
         if (used > cfg.limit)
         {
            viol("generation-over-limit", "generation " + std::to_string(kv.first) + " holds " + std::to_string(used) +
                 (cfg.counted ? " entries" : " bytes") + ", limit " + std::to_string(cfg.limit), cur);
            break;
         }
      }
      for (size_t i = 1; i < seq.size(); ++i)
      {
         if (seq[i] == seq[i - 1] + 1) continue;
         if (seq[i] <= seq[i - 1])
            viol("out-of-order", "message '" + acked_or(seq[i]) + "' follows '" + acked_or(seq[i - 1]) + "'", cur);
         else
            viol("lost-message", "messages between '" + acked_or(seq[i - 1]) + "' and '" + acked_or(seq[i]) +
                 "' are missing inside the retained generations", cur);
         break;
      }
   }

   std::vector<std::string> knownTmp;
   std::string acked_or(int idx) const
   {
      return idx >= 0 && idx < static_cast<int>(knownTmp.size()) ? knownTmp[idx] : std::string("?");
   }

   static bool isSuffix(const std::vector<int>& s, const std::vector<int>& of)
   {
      if (s.size() > of.size()) return false;
      return std::equal(s.begin(), s.end(), of.end() - s.size());
   }

   /// a roll drops the oldest generation - and only when all configured generations are in use, i.e.
   /// when generation max_gen-2 exists and takes its place
   unsigned allowedDrop(bool roll) const
   {
      if (!roll) return 0;
      if (cfg.gens == 1) return nLines(gen(prev, 0));
      return prev.find(cfg.gens - 2) != prev.end() ? nLines(gen(prev, cfg.gens - 1)) : 0;
   }

   bool fits(const std::string& text) const
   {
      const std::string& g0 = gen(prev, 0);
      return cfg.counted ? nLines(g0) + 1 <= cfg.limit : g0.size() + text.size() + 1 <= cfg.limit;
   }

   /// documented open checks: Counted uses the file only when it is empty, MaxSize rolls when the
   /// limit is reached
   bool rollOnOpenAllowed() const
   {
      const std::string& g0 = gen(prev, 0);
      return cfg.counted ? !g0.empty() : g0.size() >= cfg.limit;
   }

   // -- after a message was acknowledged
   void checkMsg(const std::string& text, const State& cur)
   {
      out.stat("state_checks");
      const unsigned before = nviol;
      knownTmp = acked;
      const int newIdx = static_cast<int>(acked.size()) - 1;
      std::vector<int> pseq = parse(prev, acked, false, cur);
      std::vector<int> cseq = parse(cur, acked, true, cur);
      invariants(cur, cseq);
      const bool fit = fits(text);
      const std::string& p0 = gen(prev, 0);
      const std::string& c0 = gen(cur, 0);
      const bool noRoll = c0 == p0 + text + "\n";
      const bool roll = !noRoll && c0 == text + "\n";
      if (!cfg.counted)
      {
         if (p0.size() + text.size() + 1 == cfg.limit) out.stat("fits_exactly");
         if (p0.size() + text.size() + 1 == cfg.limit + 1) out.stat("one_byte_too_long");
      }
      else if (nLines(p0) + 1 == cfg.limit) out.stat("fits_exactly");
      if (cseq.empty() || cseq.back() != newIdx)
         viol("last-message-missing", "the acknowledged message '" + text + "' is not the last line of generation 0", cur);
      if (roll && fit)
         viol("rolled-too-early", "a new generation was started for '" + text + "' although it fits into generation 0 (" +
              std::to_string(cfg.counted ? nLines(p0) : p0.size()) + " of " + std::to_string(cfg.limit) + " used)", cur);
      const bool endOk = nviol == before || (roll && fit);
      pseq.push_back(newIdx);
      if (!endOk) {}   // already reported under a more specific name
      else if (isSuffix(cseq, pseq))
      {
         const size_t dropped = pseq.size() - cseq.size();
         // a message that is longer than the byte limit makes the policy roll even an empty generation 0 (the property allows
         // a new generation when the message would exceed the limit); what that roll pushes out is not judged
         const bool overlong = !cfg.counted && text.size() + 1 > cfg.limit;
         if (dropped > allowedDrop(roll) && overlong) out.stat("abst_overlong_message_rolled_empty_generation");
         else if (dropped > allowedDrop(roll))
            viol("lost-on-roll", std::to_string(dropped) + " retained messages disappeared, at most " +
                 std::to_string(allowedDrop(roll)) + " (the oldest generation) may be dropped by this event", cur);
         else if (dropped) out.stat("oldest_generation_dropped");
      }
      else if (nviol == before)
         viol("lost-message", "the retained messages are not a suffix of the messages retained before plus the new one", cur);
      if (roll) out.stat("rolls_on_write");
      // exact comparison with the documented behaviour (abstain when neither alternative matches but no
      // predicate is violated)
      State expect = fit ? prev : rolled(prev, cfg.gens);
      expect[0] = gen(expect, 0) + text + "\n";
      if (norm(cur) == norm(expect)) out.stat("exact_state_matches");
      else if (nviol == before) out.stat("abst_unmodelled_state");
   }

   // -- after the handler was (re-)created
   void checkOpen(const State& cur, bool initial)
   {
      out.stat("state_checks");
      const unsigned before = nviol;
      knownTmp = acked;
      std::vector<int> pseq = parse(prev, acked, false, cur);
      std::vector<int> cseq = parse(cur, acked, true, cur);
      invariants(cur, cseq);
      const bool allowed = rollOnOpenAllowed();
      const bool roll = !gen(prev, 0).empty() && gen(cur, 0).empty();
      if (roll && !allowed)
      {
         // generation 0 lost its content; decide between "rolled" and "lost" by looking for it
         if (norm(cur) == norm(rolled(prev, cfg.gens)) && cfg.gens > 1)
            viol("rolled-too-early", "a new generation was started when the files were re-opened although generation 0 "
                 "had room", cur);
      }
      if (isSuffix(cseq, pseq))
      {
         const size_t dropped = pseq.size() - cseq.size();
         const unsigned may = allowedDrop(roll && allowed);
         if (dropped > may)
            viol("lost-after-reopen", std::to_string(dropped) + " retained messages disappeared when the files were "
                 "re-opened, at most " + std::to_string(may) + " may be dropped here", cur);
         else if (dropped)
         {
            out.stat("oldest_generation_dropped");
            // a full single generation is discarded by the re-open instead of by the next message
            const std::string& p0 = gen(prev, 0);
            if (cfg.gens == 1 && (cfg.counted ? nLines(p0) >= cfg.limit : p0.size() >= cfg.limit))
               out.stat("abst_full_single_generation_discarded_on_open");
         }
      }
      else if (nviol == before)
         viol("lost-after-reopen", "the retained messages are not a suffix of the messages retained before", cur);
      if (roll && allowed)
      {
         out.stat("rolls_on_open");
         // Counted::openCheck() is documented to use a file only when "it is empty": every restart starts a new
         // generation although the next message would fit (and with a single generation discards everything).
         // The property says otherwise -> reported under its own key (a design-level finding); the run goes on.
         if (cfg.counted && nLines(gen(prev, 0)) < cfg.limit)
         {
            if (strictReopen)
            {
               out.stat("counted_new_generation_on_reopen");
               out.viol("counted|new-generation-on-reopen",
                        cfg.str() + " history=" + histStr(hist) + " step=" + std::to_string(step) + " (" + what +
                           "): a new generation was started on re-open although generation 0 held " +
                           std::to_string(nLines(gen(prev, 0))) + " of " + std::to_string(cfg.limit) + " entries" +
                           (cfg.gens == 1 ? "; with a single generation all retained messages were discarded" : "") +
                           "; before: " + stateStr(prev) + "after: " + stateStr(cur));
            }
            else out.stat("abst_counted_rolled_nonfull_file_on_open");
         }
      }
      if (!initial && cur.find(0) == cur.end() && nviol == before) out.stat("abst_no_current_file_after_open");
      if (norm(cur) == norm(prev) || (allowed && norm(cur) == norm(rolled(prev, cfg.gens)))) out.stat("exact_state_matches");
      else if (nviol == before) out.stat("abst_unmodelled_state");
   }

   // -- after the process died inside an event; returns true when the in-flight message is on disk
   bool checkCrash(Ev ev, const std::string& text, const State& cur)
   {
      out.stat("state_checks");
      const unsigned before = nviol;
      std::vector<std::string> known = acked;
      if (ev != REOPEN) known.push_back(text);
      knownTmp = known;
      const int newIdx = ev != REOPEN ? static_cast<int>(known.size()) - 1 : -1;
      std::vector<int> pseq = parse(prev, known, false, cur);
      std::vector<int> cseq = parse(cur, known, true, cur);
      invariants(cur, cseq);
      const bool mayRoll = ev == REOPEN ? rollOnOpenAllowed() : !fits(text);
      const bool present = newIdx >= 0 && !cseq.empty() && cseq.back() == newIdx;
      if (present) pseq.push_back(newIdx);
      const char* lostKey = ev == REOPEN ? "lost-after-reopen" : "lost-on-roll";
      if (isSuffix(cseq, pseq))
      {
         const size_t dropped = pseq.size() - cseq.size();
         if (dropped > allowedDrop(mayRoll))
            viol(lostKey, std::to_string(dropped) + " retained messages disappeared when the process died in this event, "
                 "at most " + std::to_string(allowedDrop(mayRoll)) + " may be dropped by it", cur);
      }
      else if (nviol == before)
         viol(lostKey, "after the process died in this event the retained messages are not a suffix of the messages "
              "retained before (plus the in-flight one)", cur);
      if (!mayRoll && nviol == before)
      {
         State with = prev;
         if (ev != REOPEN) with[0] = gen(prev, 0) + text + "\n";
         if (norm(cur) != norm(prev) && norm(cur) != norm(with))
            viol("rolled-too-early", "the files were changed by an event that had no reason to start a new generation", cur);
      }
      if (ev != REOPEN) out.stat(present ? "inflight_present" : "inflight_absent");
      bool gap = false;
      int expectNr = -1;
      for (auto& kv : norm(cur))
      {
         if (expectNr < 0 ? kv.first > 1 : kv.first != expectNr) gap = true;
         expectNr = kv.first + 1;
      }
      if (gap) out.stat("crash_states_with_numbering_gap");
      return present;
   }

   // -- execution
   bool observe(State& cur)
   {
      std::string strange;
      if (!readState(dir, cur, strange))
      {
         viol("log-directory-unreadable", dir, cur);
         return false;
      }
      if (!strange.empty()) viol("unexpected-file", "file '" + strange + "' in the log directory", cur);
      return true;
   }

   void descr(const char* op)
   {
      char b[256];
      snprintf(b, sizeof b, "%s cfg=%s hist=%s step=%u", op, cfg.str().c_str(), histStr(hist).c_str(), step);
      prog.descr(b);
   }

   /// performs the event on the real object, no observation
   void rawEvent(Ev ev, const std::string& text)
   {
      if (ev == REOPEN)
      {
         sink.reset();
         sink = makeSink(cfg, dir);
      }
      else
      {
         LogMsg m("logfiles.cpp", "c15", 1);
         m.setText(text);
         sink->msg(m);
      }
   }

   bool open(bool check)
   {
      what = "initial open";
      descr("open");
      try { sink = makeSink(cfg, dir); }
      catch (const std::exception& e)
      {
         State cur;
         observe(cur);
         viol("exception", std::string("constructing the handler threw: ") + e.what(), cur);
         failed = true;
         return false;
      }
      if (check)
      {
         State cur;
         if (!observe(cur)) return false;
         checkOpen(cur, true);
         prev = cur;
      }
      return true;
   }

   /// one event with (optionally) observation + check; false when the run cannot go on
   bool event(Ev ev, bool check)
   {
      std::string text;
      if (ev != REOPEN) text = textOf(++serial, ev);
      what = std::string(EVNAME[ev]) + (text.empty() ? "" : " '" + text + "'");
      descr(EVNAME[ev]);
      try { rawEvent(ev, text); }
      catch (const std::exception& e)
      {
         State cur;
         observe(cur);
         viol("exception", std::string(ev == REOPEN ? "re-creating the handler" : "writing the message") + " threw: " +
              e.what(), cur);
         failed = true;
         return false;
      }
      if (ev != REOPEN) acked.push_back(text);
      out.stat(std::string("ev_") + EVNAME[ev]);
      out.stat("events");
      if (check)
      {
         State cur;
         if (!observe(cur)) return false;
         if (verbose) printf("   step %u %-12s -> %s\n", step, what.c_str(), stateStr(cur).c_str());
         const unsigned before = nviol;
         if (ev == REOPEN) checkOpen(cur, false);
         else checkMsg(text, cur);
         prev = cur;
         if (nviol != before)
         {
            // what follows a violated state is not judged (it would only repeat the defect under other names)
            out.stat("runs_stopped_after_violation");
            return false;
         }
      }
      ++step;
      return true;
   }
};

static std::string caseDir(uint64_t idx, int ev, unsigned n)
{
   char b[700];
   if (ev < 0) snprintf(b, sizeof b, "%s/c%" PRIu64, g_root, idx);
   else snprintf(b, sizeof b, "%s/c%" PRIu64 "_%d_%u", g_root, idx, ev, n);
   mkdir(b, 0700);
   return b;
}

static void dropDir(const std::string& d)
{
   rmFilesIn(d.c_str());
   rmdir(d.c_str());
}

/// fault-free run; hits (optional) receives the number of hook hits of every event
static void runPlain(uint64_t idx, const Cfg& cfg, const std::vector<Ev>& hist, std::vector<unsigned>* hits)
{
   Run r;
   r.cfg = cfg;
   r.hist = hist;
   r.dir = caseDir(idx, -1, 0);
   if (verbose) printf("case %" PRIu64 ": %s history=%s dir=%s\n", idx, cfg.str().c_str(), histStr(hist).c_str(), r.dir.c_str());
   if (r.open(true))
   {
      for (Ev e : hist)
      {
         g_hits = 0;
         if (!r.event(e, true)) break;
         if (hits) hits->push_back(g_hits);
      }
   }
   if (out.wantSample() && hist.size() >= 4 && r.serial >= 3 && (idx % 7) == 3)
      out.sample(cfg.str() + " history=" + histStr(hist) + " final: " + stateStr(r.prev));
   r.sink.reset();
   dropDir(r.dir);
}

/// event `at` is executed by a child that dies at the n-th hook hit
static void runCrash(uint64_t idx, const Cfg& cfg, const std::vector<Ev>& hist, unsigned at, unsigned n)
{
   Run r;
   r.cfg = cfg;
   r.hist = hist;
   r.dir = caseDir(idx, static_cast<int>(at), n);
   out.stat("crash_runs");
   if (verbose) printf(" crash run: event %u dies at hook hit %u\n", at, n);
   bool ok = r.open(false);
   for (unsigned i = 0; ok && i < at; ++i) ok = r.event(hist[i], false);
   if (ok)
   {
      State before;
      ok = r.observe(before);
      r.prev = before;
   }
   if (ok)
   {
      const Ev ev = hist[at];
      std::string text;
      if (ev != REOPEN) text = textOf(++r.serial, ev);
      r.what = std::string("process dies at hook hit ") + std::to_string(n) + " of " + EVNAME[ev] + (text.empty() ? "" : " '" + text + "'");
      r.descr("crash");
      fflush(stdout);
      pid_t pid = fork();
      if (pid < 0)
      {
         out.stat("fork_failed");
         ok = false;
      }
      else if (pid == 0)
      {
         g_root[0] = 0;   // the scratch directory belongs to the parent (see onAbort)
         g_hits = 0;
         g_crashAt = n;
         try { r.rawEvent(ev, text); }
         catch (...) { _exit(43); }
         _exit(0);
      }
      else
      {
         int status = 0;
         while (waitpid(pid, &status, 0) < 0 && errno == EINTR) {}
         r.sink.reset();   // the handle of the "dead process"; nothing is buffered in it
         State cur;
         ok = r.observe(cur);
         int point = -1;
         if (WIFEXITED(status) && WEXITSTATUS(status) >= 100 && WEXITSTATUS(status) < 100 + NPOINTS)
            point = WEXITSTATUS(status) - 100;
         if (point >= 0) out.stat(std::string("crash_at.") + POINTS[point]);
         else if (WIFEXITED(status) && WEXITSTATUS(status) == 0) out.stat("crash_point_not_reached");
         else if (WIFEXITED(status) && WEXITSTATUS(status) == 43)
         {
            r.viol("exception", "the event threw in the child process", cur);
            ok = false;
         }
         else
         {
            r.viol("child-died", "the child process ended with wait status " + std::to_string(status), cur);
            ok = false;
         }
         if (point >= 0) r.what += std::string(" [") + POINTS[point] + "]";
         if (verbose) printf("   step %u %s -> %s\n", r.step, r.what.c_str(), stateStr(cur).c_str());
         if (ok)
         {
            const unsigned nv = r.nviol;
            const bool present = r.checkCrash(ev, text, cur);
            if (r.nviol != nv) { out.stat("runs_stopped_after_violation"); ok = false; }
            if (ev != REOPEN && (present || (WIFEXITED(status) && WEXITSTATUS(status) == 0))) r.acked.push_back(text);
            r.prev = cur;
            ++r.step;
            out.stat("events");
         }
      }
   }
   // restart after the crash, then the rest of the history
   if (ok)
   {
      r.what = "re-open after the crash";
      r.descr("reopen");
      try
      {
         r.sink = makeSink(cfg, r.dir);
         State cur;
         if (r.observe(cur))
         {
            if (verbose) printf("   step %u %-12s -> %s\n", r.step, r.what.c_str(), stateStr(cur).c_str());
            const unsigned nv = r.nviol;
            r.checkOpen(cur, false);
            r.prev = cur;
            out.stat("reopen_after_crash");
            if (r.nviol != nv) { out.stat("runs_stopped_after_violation"); ok = false; }
         }
         else ok = false;
      }
      catch (const std::exception& e)
      {
         State cur;
         r.observe(cur);
         r.viol("exception", std::string("re-creating the handler after the crash threw: ") + e.what(), cur);
         ok = false;
      }
      ++r.step;
   }
   for (unsigned i = at + 1; ok && i < hist.size(); ++i) ok = r.event(hist[i], true);
   r.sink.reset();
   dropDir(r.dir);
}

int main(int argc, char** argv)
{
   vh::Args a = vh::parse_args(argc, argv);
   prog.open(a.progress);
   verbose = a.getu("verbose", 0) != 0;
   strictReopen = a.getu("strict_reopen", 1) != 0;
   const bool crash = a.mode == "crash";
   if (a.mode != "hist" && !crash)
   {
      fprintf(stderr, "unknown mode '%s'\n", a.mode.c_str());
      return 3;
   }
   const unsigned maxlen = static_cast<unsigned>(a.getu("maxlen", crash ? 4 : 6));
   if (maxlen < 1 || maxlen > 10) { fprintf(stderr, "maxlen out of range\n"); return 3; }
   const uint64_t N = nHistories(maxlen);
   const uint64_t total = N * NCFG;

   const char* base = getenv("TMPDIR");
   snprintf(g_root, sizeof g_root, "%s/celma-c15.XXXXXX", (base && *base) ? base : "/tmp");
   if (!mkdtemp(g_root)) { perror("mkdtemp"); g_root[0] = 0; return 2; }
   atexit(removeRoot);
   signal(SIGABRT, onAbort);
   signal(SIGTERM, onAbort);

   out.maxSamples = 3;
   for (uint64_t idx = a.start; idx < a.start + a.count && idx < total; ++idx)
   {
      out.curIdx = idx;
      const Cfg cfg = cfgOf(static_cast<unsigned>(idx % NCFG));
      const uint64_t h = ((idx / NCFG) * 1000003ULL + (a.seed % N) * 7919ULL) % N;   // a bijection for every seed
      const std::vector<Ev> hist = historyOf(h, maxlen);
      prog.set(idx, "case cfg=" + cfg.str() + " hist=" + histStr(hist));
      out.stat("cases");
      out.stat(std::string("cfg_") + cfg.policy());
      out.stat("history_length_" + std::to_string(hist.size()));
      bool anyMsg = false;
      for (Ev e : hist) anyMsg |= e != REOPEN;
      if (!crash)
      {
         runPlain(idx, cfg, hist, nullptr);
         if (anyMsg) out.stat("distinct_exact");
         else out.stat("trivial_histories_without_message");
      }
      else
      {
         std::vector<unsigned> hits;
         runPlain(idx, cfg, hist, &hits);
         for (unsigned i = 0; i < hits.size(); ++i)
            for (unsigned n = 1; n <= hits[i]; ++n)
            {
               runCrash(idx, cfg, hist, i, n);
               out.stat("distinct_exact");
            }
      }
   }
   removeRoot();
   out.finish(a);
   return 0;
}
