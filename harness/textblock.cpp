// C17 - celma::format::TextBlock: formatting a text into an indented block preserves the words and
// respects indentation, explicit newlines and the width.
//
// No reference formatter: the oracle evaluates the predicates of the property on the produced text,
// so every layout that satisfies them is accepted.
//   P1 words    : the word sequence of the output (split at blanks/newlines) == the word sequence of the
//                 input with the 'nn' forced-break tokens removed
//   P2 indent   : every output line starts with `indent` blanks; the first line iff indentFirst (when it is
//                 not requested the first line must not begin with a blank)
//   P3 newline  : a word that follows an explicit '\n' of the input is the first word of an output line
//   P4 width    : a line longer than `length` holds exactly one word, and that word really cannot fit: it is
//                 longer than length - indent - 2 (the room of a list continuation line, the narrowest
//                 documented line), i.e. a word that would fit on every kind of line never sticks out
//   P5 nn/list  : (header: "To force a line break in list ... use the token ' nn '") inside an input line
//                 that starts with '-', the word after an ' nn ' token is the first word of an output line
// Continuation lines of list items may be indented further (P2 only asks for "starts with the indentation").
//
// Abstentions (counted): texts in which an 'nn' token is the first or last token of its input line (the header
// only defines ' nn ' between words) are formatted (ASan) but not judged; for indentFirst == false the first
// line is measured as emitted (the header does not say how much "other text was already printed").
//
// modes: exh   all texts of <= 5 words over the boundary word lengths x separators {' ', '\n', ' nn '} x
//              3 (indent, width) pairs x both first-line modes x {no list, first line a list item, every line}
//        rand  random texts of 0..60 words, indent 0..12 (usage-like: 13..46), width 20..100 / 60..239
//        usage the text block as the argument handler uses it (argument_desc.cpp): a handler with 1..8 arguments
//              (keys of 1..46 characters around the same-line threshold 40, hidden / deprecated / mandatory,
//              descriptions of 1..40 unique words), usage line length default or 60..239, usage printed with any
//              combination of --print-hidden / --print-deprecated / --help-short / --help-long.  Judged on the
//              usage text: U1 a line longer than the line length holds, besides the key that starts it, at most
//              one word; U2 the words of every printed description appear exactly once and in their order, those
//              of an argument that is not displayed never; U3 every description line below the captions starts with
//              at least the two indentations (6 blanks)

#include "vh.hpp"

#include <sstream>

#include "celma/format/text_block.hpp"
#include "celma/prog_args.hpp"

static vh::Progress prog;
static vh::Out out;
static bool verbose = false, replayOne = false;

struct FastStats
{
   struct E { const char* k; uint64_t v; };
   E e[96];
   unsigned n = 0;
   void add(const char* k, uint64_t d = 1)
   {
      for (unsigned i = 0; i < n; ++i) if (e[i].k == k) { e[i].v += d; return; }
      for (unsigned i = 0; i < n; ++i) if (!strcmp(e[i].k, k)) { e[i].v += d; return; }
      if (n < 96) e[n++] = E{ k, d };
   }
   void flush() { for (unsigned i = 0; i < n; ++i) out.stat(e[i].k, e[i].v); n = 0; }
};
static FastStats fs;

struct Case
{
   int indent = 0, width = 80;
   bool indentFirst = false;
   std::string text;
};

// ------------------------------------------------------------------ input side

struct InWord
{
   size_t off, len;     // position of the word in the input text (no copies: allocations are slow under ASan)
   bool nlBefore;       // an explicit newline lies between the previous word and this one
   bool nnListBefore;   // an ' nn ' token lies between the previous word of the same *list* line and this one
};

struct InText
{
   std::vector<InWord> words;
   unsigned nnTokens = 0, newlines = 0, listLines = 0, inputLines = 0;
   bool nnAtLineEdge = false;
};

static void parse_input(const std::string& t, InText& in)
{
   in.words.clear();
   in.nnTokens = in.newlines = in.listLines = in.inputLines = 0;
   in.nnAtLineEdge = false;
   bool nl = false;
   size_t ls = 0;
   while (ls <= t.size())
   {
      size_t le = t.find('\n', ls);
      const bool last = le == std::string::npos;
      if (last) le = t.size();
      const bool list = le > ls && t[ls] == '-';
      if (le > ls) { ++in.inputLines; if (list) ++in.listLines; }
      size_t p = ls;
      bool nnPending = false, firstTok = true, lastWasNN = false;
      while (p < le)
      {
         while (p < le && t[p] == ' ') ++p;
         if (p >= le) break;
         size_t q = p;
         while (q < le && t[q] != ' ') ++q;
         const size_t tp = p, tl = q - p;
         p = q;
         if (tl == 2 && t[tp] == 'n' && t[tp + 1] == 'n')
         {
            ++in.nnTokens;
            if (firstTok) in.nnAtLineEdge = true;
            nnPending = true;
            lastWasNN = true;
         }
         else
         {
            in.words.push_back(InWord{ tp, tl, nl && !in.words.empty(), nnPending && list && !firstTok });
            nl = false;
            nnPending = false;
            lastWasNN = false;
         }
         firstTok = false;
      }
      if (lastWasNN) in.nnAtLineEdge = true;
      if (last) break;
      ++in.newlines;
      nl = true;
      ls = le + 1;
   }
}

// ------------------------------------------------------------------ output side

struct OutLine { size_t start, len; unsigned lead, nwords; size_t firstWord; };
struct OutWord { size_t off, len; unsigned line; bool firstOnLine; };

static void parse_output(const std::string& o, std::vector<OutLine>& lines, std::vector<OutWord>& words)
{
   lines.clear();
   words.clear();
   if (o.empty()) return;
   size_t ls = 0;
   while (ls <= o.size())
   {
      size_t le = o.find('\n', ls);
      const bool last = le == std::string::npos;
      if (last) le = o.size();
      if (last && ls == o.size() && ls > 0) break;   // a final '\n' terminates the last line, it does not open another
      OutLine L{ ls, le - ls, 0, 0, words.size() };
      size_t p = ls;
      while (p < le && o[p] == ' ') ++p;
      L.lead = (unsigned)(p - ls);
      while (p < le)
      {
         while (p < le && o[p] == ' ') ++p;
         if (p >= le) break;
         size_t q = p;
         while (q < le && o[q] != ' ') ++q;
         words.push_back(OutWord{ p, q - p, (unsigned)lines.size(), L.nwords == 0 });
         ++L.nwords;
         p = q;
      }
      lines.push_back(L);
      if (last) break;
      ls = le + 1;
   }
}

// ------------------------------------------------------------------ oracle

static std::string describe(const Case& c, const std::string& o)
{
   char b[96];
   snprintf(b, sizeof b, "TextBlock(indent=%d, length=%d, indentFirst=%s) text=\"", c.indent, c.width, c.indentFirst ? "true" : "false");
   std::string r = b;
   std::string t = c.text;
   for (size_t i = 0; i < t.size(); ++i) { if (t[i] == '\n') r += "\\n"; else r += t[i]; }
   r += "\" output=\"";
   for (size_t i = 0; i < o.size(); ++i) { if (o[i] == '\n') r += "\\n"; else r += o[i]; }
   r += "\"";
   return r;
}

static InText in;
static std::vector<OutLine> olines;
static std::vector<OutWord> owords;

/// -> number of violated predicates
static unsigned judge(const Case& c, const std::string& o)
{
   unsigned bad = 0;
   char b[256];
   parse_input(c.text, in);
   parse_output(o, olines, owords);
   fs.add("words", in.words.size());
   fs.add("input.nn_tokens", in.nnTokens);
   fs.add("input.newlines", in.newlines);
   fs.add("input.list_lines", in.listLines);
   fs.add("output.lines", olines.size());
   if (in.nnAtLineEdge) { fs.add("abstain.nn_at_line_edge"); return 0; }
   fs.add("judged");

   // P1: word sequence
   bool wordsOk = owords.size() == in.words.size();
   size_t firstDiff = 0;
   {
      size_t n = owords.size() < in.words.size() ? owords.size() : in.words.size();
      while (firstDiff < n && owords[firstDiff].len == in.words[firstDiff].len
             && memcmp(o.data() + owords[firstDiff].off, c.text.data() + in.words[firstDiff].off, owords[firstDiff].len) == 0) ++firstDiff;
      if (firstDiff < n) wordsOk = false;
   }
   if (!wordsOk)
   {
      ++bad;
      snprintf(b, sizeof b, "word sequences differ at word #%zu (input has %zu words: '%.40s', output has %zu: '%.40s'): ", firstDiff, in.words.size(),
               firstDiff < in.words.size() ? c.text.substr(in.words[firstDiff].off, in.words[firstDiff].len).c_str() : "<end>", owords.size(),
               firstDiff < owords.size() ? o.substr(owords[firstDiff].off, owords[firstDiff].len).c_str() : "<end>");
      out.viol("words|output word sequence differs from the input", b + describe(c, o));
   }
   fs.add("P1.words_compared", in.words.size());

   // P2: indentation
   for (size_t li = 0; li < olines.size(); ++li)
   {
      const OutLine& L = olines[li];
      const bool must = li > 0 || c.indentFirst;
      if (must)
      {
         if (L.len < (size_t)c.indent || L.lead < (unsigned)c.indent)
         {
            ++bad;
            snprintf(b, sizeof b, "output line #%zu starts with %u blanks (line length %zu), indentation is %d: ", li, L.lead, L.len, c.indent);
            out.viol(li == 0 ? "indent|first line not indented although requested" : "indent|line does not start with the indentation", b + describe(c, o));
            break;
         }
         fs.add("P2.lines_indented");
      }
      else if (c.indent > 0)
      {
         if (L.len > 0 && o[L.start] == ' ')
         {
            ++bad;
            snprintf(b, sizeof b, "first output line starts with %u blanks although indentFirst is false: ", L.lead);
            out.viol("indent|first line indented although not requested", b + describe(c, o));
            break;
         }
         fs.add("P2.first_line_unindented");
      }
   }

   // P3 / P5 need the word correspondence
   if (wordsOk)
   {
      for (size_t i = 0; i < in.words.size(); ++i)
      {
         if (in.words[i].nlBefore)
         {
            if (!owords[i].firstOnLine)
            {
               ++bad;
               snprintf(b, sizeof b, "word #%zu '%.40s' follows a newline in the input but is not the first word of an output line: ", i, c.text.substr(in.words[i].off, in.words[i].len).c_str());
               out.viol("newline|input newline does not start a new output line", b + describe(c, o));
               break;
            }
            fs.add("P3.newlines_checked");
         }
      }
      for (size_t i = 0; i < in.words.size(); ++i)
      {
         if (in.words[i].nnListBefore)
         {
            if (!owords[i].firstOnLine)
            {
               ++bad;
               snprintf(b, sizeof b, "word #%zu '%.40s' follows an ' nn ' token inside a list item but is not the first word of an output line: ", i, c.text.substr(in.words[i].off, in.words[i].len).c_str());
               out.viol("nn|no line break after the nn token in a list item", b + describe(c, o));
               break;
            }
            fs.add("P5.nn_breaks_checked");
         }
      }
   }

   // P4: width
   bool wrapped = false;
   for (size_t li = 0; li < olines.size(); ++li)
   {
      const OutLine& L = olines[li];
      if (li > 0 && L.nwords > 0 && !(wordsOk && in.words[L.firstWord].nlBefore)) wrapped = true;
      if (L.len == (size_t)c.width) fs.add("P4.lines_exactly_width");
      else if (L.len + 1 == (size_t)c.width) fs.add("P4.lines_width_minus_1");
      if (L.nwords >= 2 && L.lead >= (unsigned)c.indent + 2 && li > 0) fs.add("output.list_continuation_lines_several_words");
      if (li == 0 && !c.indentFirst && L.nwords >= 2 && L.len <= (size_t)c.width && L.len + c.indent > (size_t)c.width)
         fs.add("abstain.first_line_fits_only_without_assumed_prefix");
      if (L.len <= (size_t)c.width) continue;
      if (L.nwords >= 2)
      {
         ++bad;
         snprintf(b, sizeof b, "output line #%zu is %zu characters long (length %d) and holds %u words: ", li, L.len, c.width, L.nwords);
         out.viol("width|line longer than the width holds several words", b + describe(c, o));
         break;
      }
      if (L.nwords == 1)
      {
         const size_t wl = owords[L.firstWord].len;
         if ((size_t)c.indent + 2 + wl <= (size_t)c.width)
         {
            ++bad;
            snprintf(b, sizeof b, "output line #%zu is %zu characters long (length %d) although its single word of %zu characters would fit (%u leading blanks): ", li,
                     L.len, c.width, wl, L.lead);
            out.viol("width|overlong line although its word would fit", b + describe(c, o));
            break;
         }
         fs.add("P4.overlong_single_word_lines");
      }
      else
      {
         ++bad;
         snprintf(b, sizeof b, "output line #%zu is %zu characters long (length %d) and holds no word: ", li, L.len, c.width);
         out.viol("width|blank line longer than the width", b + describe(c, o));
         break;
      }
   }
   if (wrapped) fs.add("texts_with_automatic_wrap");
   return bad;
}

// ------------------------------------------------------------------ running one case

static std::ostringstream oss;

static void run_case(const Case& c, uint64_t idx)
{
   {
      // descriptor for the crash report, built without allocations
      static char d[4000];
      int n = snprintf(d, 100, "format indent=%d length=%d indentFirst=%d text=", c.indent, c.width, (int)c.indentFirst);
      for (size_t i = 0; i < c.text.size() && n < 3900; ++i)
      {
         const char ch = c.text[i];
         if (ch == '\n') { d[n++] = '\\'; d[n++] = 'n'; }
         else d[n++] = ch;
      }
      d[n] = 0;
      prog.set(idx, d);
   }
   oss.str(std::string());
   oss.clear();
   {
      celma::format::TextBlock tb(c.indent, c.width, c.indentFirst);
      tb.format(oss, c.text);
   }
   const std::string o = oss.str();
   unsigned bad = judge(c, o);
   if (verbose || (bad && replayOne))
      printf("case %" PRIu64 ": %s\n", idx, describe(c, o).c_str());
}

// ------------------------------------------------------------------ usage mode

struct UArg
{
   std::string spec, shortKey, longKey;
   std::vector<std::string> words;
   bool hidden = false, deprecated = false, mandatory = false;
};

static std::string gUsageDescr;

static void run_usage_case(vh::Rng& r, uint64_t idx)
{
   using celma::prog_args::Handler;
   static const char LET[] = "abcdefgijklmnopqrstuvwxyz";
   const unsigned n = 1 + (unsigned)r.below(8);
   std::vector<UArg> args(n);
   // keys: mostly short ones, in a third of the cases one long key around the same-line threshold
   const int special = r.chance(1, 3) ? (int)r.below(n) : -1;
   const bool specialHidden = r.chance(1, 2);
   for (unsigned i = 0; i < n; ++i)
   {
      UArg& a = args[i];
      const unsigned form = (unsigned)r.below(4);      // 0,1 both; 2 short; 3 long
      if (form != 3) a.shortKey = std::string(1, LET[(i * 3 + r.below(3)) % 25]);
      if (form != 2 || (int)i == special)
      {
         unsigned len = 2 + (unsigned)r.below(14);
         if ((int)i == special) len = 20 + (unsigned)r.below(27);      // 20..46: around MaxNameLength = 40
         a.longKey = "l" + std::to_string(i);
         while (a.longKey.size() < len) a.longKey += (a.longKey.size() % 7 == 3) ? '-' : (char)('a' + r.below(26));
         if (a.longKey.back() == '-') a.longKey.back() = 'x';
      }
      a.spec = a.shortKey.empty() ? a.longKey : a.longKey.empty() ? a.shortKey : a.shortKey + "," + a.longKey;
      const unsigned k = (unsigned)r.below(4) == 0 ? 1 + (unsigned)r.below(3) : 1 + (unsigned)r.below(40);
      for (unsigned w = 0; w < k; ++w)
      {
         std::string word = "A" + std::to_string(i) + "w" + std::to_string(w);
         unsigned len = 1 + (unsigned)r.below(12);
         if (r.chance(1, 60)) len = 30 + (unsigned)r.below(60);
         while (word.size() < len) word += (char)('a' + r.below(26));
         a.words.push_back(word);
      }
      const unsigned v = (unsigned)r.below(10);
      if ((int)i == special) { (specialHidden ? a.hidden : a.deprecated) = true; if (r.chance(1, 4)) a.hidden = a.deprecated = true; }
      else if (v < 2) a.mandatory = true;
      else if (v < 4) a.hidden = true;
      else if (v < 6) a.deprecated = true;
      else if (v < 7) a.hidden = a.deprecated = true;
   }
   const int lineLen = r.chance(1, 2) ? 80 : (int)r.range(60, 239);
   bool printHidden = r.chance(1, 2), printDeprecated = r.chance(1, 2);
   const unsigned contents = (unsigned)r.below(4);     // 0,1 all; 2 short; 3 long
   std::vector<std::string> store = { "prog" };
   {
      std::vector<std::string> pre;
      if (printHidden) pre.push_back("--print-hidden");
      if (printDeprecated) pre.push_back("--print-deprecated");
      if (contents == 2) pre.push_back("--help-short");
      if (contents == 3) pre.push_back("--help-long");
      for (size_t i = pre.size(); i > 1; --i) std::swap(pre[i - 1], pre[r.below(i)]);
      for (auto& p : pre) store.push_back(p);
      store.push_back(r.chance(1, 2) ? "-h" : "--help");
   }
   {
      static char d[600];
      int m = snprintf(d, sizeof d, "usage lineLen=%d args=", lineLen);
      for (auto& a : args) if (m < 500) m += snprintf(d + m, sizeof d - m, "%s%s%s%s/%zu ", a.spec.substr(0, 50).c_str(), a.hidden ? ":H" : "", a.deprecated ? ":D" : "", a.mandatory ? ":M" : "", a.words.size());
      for (auto& w : store) if (m < 580) m += snprintf(d + m, sizeof d - m, " %s", w.c_str());
      prog.set(idx, d);
      gUsageDescr = d;
   }
   std::ostringstream os, es;
   std::vector<int> dest(n, 0);
   std::string outcome;
   try
   {
      Handler ah(os, es, Handler::hfHelpShort | Handler::hfHelpLong | Handler::hfUsageCont | Handler::hfArgHidden
                            | Handler::hfArgDeprecated | Handler::hfUsageShort | Handler::hfUsageLong);
      if (lineLen != 80 || r.chance(1, 4)) ah.setUsageLineLength(lineLen);
      for (unsigned i = 0; i < n; ++i)
      {
         std::string desc;
         for (auto& w : args[i].words) { if (!desc.empty()) desc += ' '; desc += w; }
         auto* a = ah.addArgument(args[i].spec, DEST_VAR(dest[i]), desc);
         if (args[i].mandatory) a->setIsMandatory();
         if (args[i].hidden) a->setIsHidden();
         if (args[i].deprecated) a->setIsDeprecated();
      }
      std::vector<char*> av;
      for (auto& w : store) av.push_back(&w[0]);
      av.push_back(nullptr);
      ah.evalArguments((int)store.size(), av.data());
   }
   catch (const std::exception& e)
   {
      // mandatory arguments are missing on this command line: the usage was printed before
      outcome = e.what();
   }
   const std::string o = os.str();
   fs.add("usage.cases");
   if (o.find("Usage:") == std::string::npos && o.find("arguments:") == std::string::npos)
   {
      fs.add("usage.no_usage_printed");
      if (verbose) printf("case %" PRIu64 ": no usage; outcome=%s out=%s\n", idx, outcome.c_str(), o.c_str());
      return;
   }
   // U1: width
   bool bad = false, inArgs = false;
   size_t pos = 0, lineNo = 0;
   unsigned longest = 0;
   while (pos <= o.size())
   {
      size_t e = o.find('\n', pos);
      if (e == std::string::npos) e = o.size();
      const std::string line = o.substr(pos, e - pos);
      pos = e + 1;
      ++lineNo;
      fs.add("usage.lines");
      if (line.size() > longest) longest = (unsigned)line.size();
      // U3: below the captions every line is an entry line ("   -key ..."), empty, or a description line inside the block
      // (indented by at least the two indentations in front of and behind the key column)
      if (line == "Mandatory arguments:" || line == "Optional arguments:") inArgs = true;
      else if (inArgs && !line.empty() && line.compare(0, 4, "   -") != 0)
      {
         fs.add("usage.description_lines_checked_for_indentation");
         if (line.size() < 6 || line.compare(0, 6, "      ") != 0)
         {
            bad = true;
            char b[160];
            snprintf(b, sizeof b, "line %zu of the usage is a description line that does not start with the block indentation: ", lineNo);
            out.viol("usage-indent|description line not indented", std::string(b) + line.substr(0, 200) + " | " + gUsageDescr);
         }
      }
      if (line.size() == (size_t)lineLen) fs.add("usage.lines_exactly_line_length");
      if (line.size() <= (size_t)lineLen) continue;
      // words of the line, the key that starts an entry line not counted
      unsigned words = 0;
      bool inWord = false;
      for (char ch : line) { if (ch != ' ' && !inWord) { ++words; inWord = true; } else if (ch == ' ') inWord = false; }
      const bool entry = line.compare(0, 4, "   -") == 0;
      if (entry && words > 0) --words;
      if (words <= 1) { fs.add("usage.overlong_single_word_lines"); continue; }
      bad = true;
      char b[200];
      snprintf(b, sizeof b, "line %zu of the usage is %zu characters long with a line length of %d and holds %u words%s: ", lineNo, line.size(), lineLen, words, entry ? " besides the key" : "");
      out.viol("usage-width|line longer than the usage line length", std::string(b) + line.substr(0, 300) + " | " + gUsageDescr);
   }
   // U2: words
   {
      std::vector<std::string> toks;
      std::string cur;
      for (char ch : o) { if (ch == ' ' || ch == '\n') { if (!cur.empty()) toks.push_back(cur); cur.clear(); } else cur += ch; }
      if (!cur.empty()) toks.push_back(cur);
      for (unsigned i = 0; i < n; ++i)
      {
         const UArg& a = args[i];
         const bool hasKey = contents == 2 ? !a.shortKey.empty() : contents == 3 ? !a.longKey.empty() : true;
         const bool vis = hasKey && (!a.hidden || printHidden) && (!a.deprecated || printDeprecated);
         const std::string prefix = "A" + std::to_string(i) + "w";
         std::vector<std::string> got;
         for (auto& t : toks) if (t.compare(0, prefix.size(), prefix) == 0) got.push_back(t);
         if (vis) { fs.add("usage.descriptions_printed"); fs.add("usage.words_compared", a.words.size()); }
         else fs.add("usage.descriptions_suppressed");
         if (vis ? got != a.words : !got.empty())
         {
            bad = true;
            out.viol(vis ? "usage-words|description words lost, repeated or reordered in the usage" : "usage-words|description of an argument that is not displayed",
                     "argument " + a.spec + ": " + std::to_string(got.size()) + " of " + std::to_string(a.words.size()) + " words found | " + gUsageDescr.c_str());
         }
      }
   }
   if (longest > 80) fs.add("usage.wide_usages");
   {
      uint64_t h = vh::hash_str(o, (uint64_t)lineLen);
      out.distinct(h);
   }
   if (verbose || (bad && replayOne) || (out.wantSample() && idx % 97 == 3 && o.size() < 1500))
   {
      if (verbose || bad) printf("case %" PRIu64 ": %s\n%s\n", idx, gUsageDescr.c_str(), o.c_str());
      else out.sample(std::string(gUsageDescr.c_str()) + " => " + std::to_string(lineNo) + " lines, longest " + std::to_string(longest));
   }
}

// ------------------------------------------------------------------ generators

static const char ALPHA[] = "abcdefghijklmnopqrstuvwxyznnnnABCXYZ0123456789.,:;()_/'-";

static std::string make_word(vh::Rng& r, unsigned len, bool dashStart)
{
   std::string w;
   for (;;)
   {
      w.clear();
      for (unsigned i = 0; i < len; ++i)
      {
         char ch = ALPHA[r.below(sizeof(ALPHA) - 1)];
         if (i == 0 && ch == '-' && !dashStart) ch = 'x';
         w += ch;
      }
      if (dashStart && len > 0) w[0] = '-';
      if (w != "nn") return w;
   }
}

static void make_rand(vh::Rng& r, Case& c)
{
   c.indent = (int)r.range(0, 12);
   c.width = r.chance(7, 10) ? (int)r.range(20, 100) : (int)r.range(60, 239);
   // the usage printer indents the descriptions behind the key column: 2 * 3 + (key column <= 40)
   if (c.width >= 60 && r.chance(1, 3)) c.indent = (int)r.range(13, 46);
   c.indentFirst = r.chance(1, 2);
   const int avail = c.width - c.indent;
   unsigned target = r.chance(1, 5) ? (unsigned)r.below(6) : (unsigned)r.below(61);
   const unsigned listPct = (unsigned)r.pick(std::vector<unsigned>{ 0, 10, 30, 60, 100 });
   const unsigned nlPct = (unsigned)r.pick(std::vector<unsigned>{ 0, 3, 10, 30 });
   const unsigned nnPct = (unsigned)r.pick(std::vector<unsigned>{ 0, 0, 3, 10 });
   c.text.clear();
   unsigned words = 0;
   bool firstLine = true;
   while (words < target)
   {
      if (!firstLine) { c.text += '\n'; if (r.below(40) == 0) c.text += '\n'; }
      firstLine = false;
      const bool list = r.below(100) < listPct;
      int base = c.indent, cur = c.indent;   // rough greedy tracker, only steers the word lengths towards the boundaries
      bool lineHasWord = false;
      for (;;)
      {
         // length of the next word
         int len;
         const unsigned roll = (unsigned)r.below(100);
         const int room = lineHasWord ? c.width - cur - 1 : c.width - cur;
         if (roll < 48) len = (int)r.range(1, 10);
         else if (roll < 58) len = 1;
         else if (roll < 66) len = (int)r.range(1, avail > 2 ? avail / 2 : 1);
         else if (roll < 82) len = room + (int)r.range(-1, 1);                       // ends one before / at / one after the width
         else if (roll < 90) len = avail + (int)r.range(-3, 1);                      // alone on a (continuation) line: around the width
         else if (roll < 94) len = (int)r.range(avail + 1, c.width + 5);             // cannot fit
         else len = (int)r.range(1, 4);
         if (len < 1) len = 1;
         if (len > c.width + 5) len = c.width + 5;
         std::string w;
         if (!lineHasWord && list)
         {
            if (r.chance(2, 3)) { w = "-"; len = 1; }     // "- item"
            else w = make_word(r, (unsigned)len < 2 ? 2 : (unsigned)len, true);   // "-item"
         }
         else w = make_word(r, (unsigned)len, lineHasWord && r.below(50) == 0);
         if (!lineHasWord && !list && w[0] == '-') w[0] = 'y';
         if (lineHasWord)
         {
            c.text += ' ';
            if (r.below(100) < (list ? nnPct * 2 : nnPct)) { c.text += "nn "; cur = base; if (r.below(10) == 0) c.text += "nn "; }
         }
         c.text += w;
         ++words;
         const int wl = (int)w.size();
         if (cur + 1 + wl > c.width) { base = c.indent + (list ? 2 : 0); cur = base + wl; }
         else cur += (cur != base ? 1 : 0) + wl;
         lineHasWord = true;
         if (words >= target) break;
         if (r.below(100) < nlPct) break;
      }
   }
}

static uint64_t ipow(uint64_t b, unsigned e) { uint64_t r = 1; while (e--) r *= b; return r; }

static const int PAIRS[3][2] = { { 0, 20 }, { 5, 30 }, { 12, 33 } };
static const unsigned MAXW = 5;

static std::vector<int> exh_lens(int avail, unsigned nl)
{
   if (nl <= 4) return { 1, avail - 1, avail, avail + 1 };
   if (nl == 5) return { 1, avail - 2, avail - 1, avail, avail + 1 };
   return { 1, 2, avail - 3, avail - 2, avail - 1, avail, avail + 1 };
}

/// index space: pair(3) x indentFirst(2) x listmode(3) x k = 0..5 words: L^k * 3^(k-1) texts
static bool make_exh(uint64_t idx, unsigned nl, Case& c)
{
   const unsigned L = nl <= 4 ? 4 : (nl == 5 ? 5 : 7);
   for (unsigned p = 0; p < 3; ++p)
      for (unsigned f = 0; f < 2; ++f)
         for (unsigned lm = 0; lm < 3; ++lm)
            for (unsigned k = 0; k <= MAXW; ++k)
            {
               const uint64_t size = k == 0 ? 1 : ipow(L, k) * ipow(3, k - 1);
               if (idx >= size) { idx -= size; continue; }
               c.indent = PAIRS[p][0];
               c.width = PAIRS[p][1];
               c.indentFirst = f != 0;
               const std::vector<int> lens = exh_lens(c.width - c.indent, nl);
               c.text.clear();
               for (unsigned j = 0; j < k; ++j)
               {
                  unsigned sep = 0;
                  if (j > 0)
                  {
                     sep = (unsigned)(idx % 3);
                     idx /= 3;
                     c.text += sep == 0 ? " " : (sep == 1 ? "\n" : " nn ");
                  }
                  if ((lm == 1 && j == 0) || (lm == 2 && (j == 0 || sep == 1))) c.text += "- ";
                  const int len = lens[idx % L];
                  idx /= L;
                  c.text += std::string((size_t)len, (char)('a' + j));
               }
               return true;
            }
   return false;
}

// ------------------------------------------------------------------ main

int main(int argc, char** argv)
{
   vh::Args a = vh::parse_args(argc, argv);
   prog.open(a.progress);
   verbose = a.getu("verbose", 0) != 0;
   const uint64_t end = a.start + a.count;
   replayOne = a.count == 1;
   const unsigned nl = (unsigned)a.getu("lens", 5);
   const bool exh = a.mode == "exh";
   if (a.mode == "usage")
   {
      for (uint64_t i = a.start; i < end; ++i)
      {
         out.curIdx = i;
         vh::Rng r(vh::mix(a.seed, vh::mix(vh::hash_str(a.mode), i)));
         run_usage_case(r, i);
         fs.add("cases");
      }
      fs.flush();
      out.finish(a);
      return 0;
   }
   if (!exh && a.mode != "rand") { fprintf(stderr, "unknown mode %s\n", a.mode.c_str()); return 3; }

   // self-test of the oracle's parsers on the example of the header / unit test
   {
      Case c;
      c.indent = 5; c.width = 75; c.indentFirst = true;
      c.text = "- new feature: nn Forced line break\nnext line";
      std::string good = "     - new feature:\n       Forced line break\n     next line";
      const uint64_t v0 = out.stats["violations_observed"];
      if (judge(c, good) != 0) { fprintf(stderr, "oracle self-test: good layout rejected\n"); return 3; }
      std::string bad1 = "     - new feature: Forced line break next line";
      std::string bad2 = "     - new feature:\n  Forced line break\n     next line";
      std::string bad3 = "     - new feature:\n       Forced break\n     next line";
      out.violPerKey["newline|input newline does not start a new output line"] = 1000;   // silence the self-test
      out.violPerKey["nn|no line break after the nn token in a list item"] = 1000;
      out.violPerKey["indent|line does not start with the indentation"] = 1000;
      out.violPerKey["words|output word sequence differs from the input"] = 1000;
      if (judge(c, bad1) == 0 || judge(c, bad2) == 0 || judge(c, bad3) == 0) { fprintf(stderr, "oracle self-test: bad layout accepted\n"); return 3; }
      out.violPerKey.clear();
      out.stats["violations_observed"] = v0;
      fs.n = 0;
   }

   Case c;
   for (uint64_t i = a.start; i < end; ++i)
   {
      out.curIdx = i;
      if (exh)
      {
         if (!make_exh(i, nl, c)) { fprintf(stderr, "case index %" PRIu64 " outside of the exhaustive space\n", i); return 3; }
      }
      else
      {
         vh::Rng r(vh::mix(a.seed, vh::mix(vh::hash_str(a.mode), i)));
         make_rand(r, c);
      }
      run_case(c, i);
      fs.add("cases");
      fs.add(c.indentFirst ? "config.indent_first" : "config.first_line_not_indented");
      if (c.indent == 0) fs.add("config.indent_0");
      if (c.indent > 12) fs.add("config.indent_over_12");
      if (c.width >= 101) fs.add("config.width_over_100");
      if (!in.words.empty())
      {
         if (exh) fs.add("distinct_exact");
         else
         {
            uint64_t h = vh::hash_u64(((uint64_t)c.indent << 32) | ((uint64_t)c.width << 1) | (c.indentFirst ? 1 : 0));
            out.distinct(vh::hash_str(c.text, h));
         }
      }
      else fs.add("trivial_texts_without_words");
      if (out.wantSample() && in.words.size() >= 2 && in.words.size() <= 12 && (exh ? i % 200003 == 11 : i % 499 == 5))
      {
         oss.str(std::string());
         celma::format::TextBlock tb(c.indent, c.width, c.indentFirst);
         tb.format(oss, c.text);
         out.sample(describe(c, oss.str()));
      }
   }
   fs.flush();
   out.finish(a);
   return 0;
}
