// Common support for the Celma monitoring harnesses.
//
// worker protocol (stdout):  STAT <name> <n> | SAMPLE <text> | VIOL <key>\t<idx>\t<detail> | DONE
// progress file (mmap):      magic, case index, descriptor - read by the driver when the
//                            process was killed by a sanitizer / watchdog.
#pragma once

#include <cinttypes>
#include <cstdint>
#include <cstdio>
#include <cstdlib>
#include <cstring>
#include <fcntl.h>
#include <map>
#include <string>
#include <sys/mman.h>
#include <unistd.h>
#include <unordered_set>
#include <vector>

namespace vh {

inline uint64_t splitmix(uint64_t& s)
{
   uint64_t z = (s += 0x9e3779b97f4a7c15ULL);
   z = (z ^ (z >> 30)) * 0xbf58476d1ce4e5b9ULL;
   z = (z ^ (z >> 27)) * 0x94d049bb133111ebULL;
   return z ^ (z >> 31);
}

inline uint64_t mix(uint64_t a, uint64_t b)
{
   uint64_t s = a * 0x9e3779b97f4a7c15ULL + b;
   return splitmix(s);
}

struct Rng
{
   uint64_t s;
   explicit Rng(uint64_t seed = 1) : s(seed) {}
   uint64_t next() { return splitmix(s); }
   uint64_t below(uint64_t n) { return n ? next() % n : 0; }
   int64_t range(int64_t lo, int64_t hi) { return lo + (int64_t)below((uint64_t)(hi - lo + 1)); }
   bool chance(unsigned num, unsigned den) { return below(den) < num; }
   template <typename T> const T& pick(const std::vector<T>& v) { return v[below(v.size())]; }
};

/// FNV-1a, for "distinct case" counting
inline uint64_t hash_bytes(const void* p, size_t n, uint64_t h = 1469598103934665603ULL)
{
   auto c = static_cast<const unsigned char*>(p);
   for (size_t i = 0; i < n; ++i) { h ^= c[i]; h *= 1099511628211ULL; }
   return h;
}
inline uint64_t hash_str(const std::string& s, uint64_t h = 1469598103934665603ULL)
{
   return hash_bytes(s.data(), s.size(), h);
}
inline uint64_t hash_u64(uint64_t v, uint64_t h = 1469598103934665603ULL)
{
   return hash_bytes(&v, sizeof v, h);
}

struct Args
{
   std::string mode;
   uint64_t seed = 1, worker = 0, nworkers = 1, start = 0, count = 0;
   std::string progress, hashes;
   std::map<std::string, std::string> opt;
   uint64_t getu(const std::string& k, uint64_t d) const
   {
      auto it = opt.find(k);
      return it == opt.end() ? d : strtoull(it->second.c_str(), nullptr, 0);
   }
   std::string gets(const std::string& k, const std::string& d = "") const
   {
      auto it = opt.find(k);
      return it == opt.end() ? d : it->second;
   }
};

inline Args parse_args(int argc, char** argv)
{
   Args a;
   for (int i = 1; i + 1 < argc; i += 2)
   {
      std::string k = argv[i], v = argv[i + 1];
      if (k.rfind("--", 0) == 0) k = k.substr(2);
      if (k == "mode") a.mode = v;
      else if (k == "seed") a.seed = strtoull(v.c_str(), nullptr, 0);
      else if (k == "worker") a.worker = strtoull(v.c_str(), nullptr, 0);
      else if (k == "nworkers") a.nworkers = strtoull(v.c_str(), nullptr, 0);
      else if (k == "start") a.start = strtoull(v.c_str(), nullptr, 0);
      else if (k == "count") a.count = strtoull(v.c_str(), nullptr, 0);
      else if (k == "progress") a.progress = v;
      else if (k == "hashes") a.hashes = v;
      else a.opt[k] = v;
   }
   return a;
}

struct Progress
{
   static constexpr size_t SIZE = 4096;
   char* mem = nullptr;
   char local[SIZE];
   void open(const std::string& path)
   {
      mem = local;
      if (path.empty()) return;
      int fd = ::open(path.c_str(), O_RDWR);
      if (fd < 0) return;
      void* p = mmap(nullptr, SIZE, PROT_READ | PROT_WRITE, MAP_SHARED, fd, 0);
      ::close(fd);
      if (p != MAP_FAILED) mem = static_cast<char*>(p);
   }
   void set(uint64_t idx, const char* descr)
   {
      uint64_t magic = 0x56455249;
      memcpy(mem, &magic, 8);
      memcpy(mem + 8, &idx, 8);
      size_t n = strlen(descr);
      if (n > SIZE - 17) n = SIZE - 17;
      memcpy(mem + 16, descr, n);
      mem[16 + n] = 0;
   }
   void set(uint64_t idx, const std::string& d) { set(idx, d.c_str()); }
   /// replace only the descriptor (e.g. the operation inside a history)
   void descr(const char* d)
   {
      size_t n = strlen(d);
      if (n > SIZE - 17) n = SIZE - 17;
      memcpy(mem + 16, d, n);
      mem[16 + n] = 0;
   }
};

struct Out
{
   std::map<std::string, uint64_t> stats;
   std::map<std::string, unsigned> violPerKey;
   unsigned samples = 0, maxSamples = 4;
   std::unordered_set<uint64_t> hashes;
   size_t maxHashes = 2000000;
   bool hashOverflow = false;
   uint64_t curIdx = 0;

   void stat(const std::string& k, uint64_t n = 1) { stats[k] += n; }
   void sample(const std::string& s)
   {
      if (samples < maxSamples) { ++samples; printf("SAMPLE %s\n", s.c_str()); }
   }
   bool wantSample() const { return samples < maxSamples; }
   void viol(const std::string& key, const std::string& detail)
   {
      unsigned& n = violPerKey[key];
      stats["violations_observed"]++;
      if (++n <= 3)
      {
         std::string d = detail;
         for (auto& c : d) if (c == '\n' || c == '\t') c = ' ';
         if (d.size() > 1500) d.resize(1500);
         printf("VIOL %s\t%" PRIu64 "\t%s\n", key.c_str(), curIdx, d.c_str());
         fflush(stdout);
      }
   }
   /// register a non-trivial case by hash
   void distinct(uint64_t h)
   {
      if (hashes.size() < maxHashes) hashes.insert(h);
      else hashOverflow = true;
   }
   void finish(const Args& a)
   {
      for (auto& kv : stats) printf("STAT %s %" PRIu64 "\n", kv.first.c_str(), kv.second);
      if (hashOverflow) printf("STAT hash_overflow 1\n");
      if (!a.hashes.empty())
      {
         FILE* f = fopen(a.hashes.c_str(), "wb");
         if (f)
         {
            std::vector<uint64_t> v(hashes.begin(), hashes.end());
            if (!v.empty()) fwrite(v.data(), 8, v.size(), f);
            fclose(f);
         }
      }
      printf("DONE\n");
      fflush(stdout);
   }
};

inline std::string hex(const std::string& s)
{
   static const char* d = "0123456789abcdef";
   std::string r;
   for (unsigned char c : s) { r += d[c >> 4]; r += d[c & 15]; }
   return r;
}
inline std::string printable(const std::string& s)
{
   std::string r;
   for (unsigned char c : s)
   {
      if (c >= 32 && c < 127 && c != '\\') r += (char)c;
      else { char b[8]; snprintf(b, sizeof b, "\\x%02x", c); r += b; }
   }
   return r;
}

}   // namespace vh
