"""Python side of the argument-handler rig: configuration/line data model, the independent
model of the documented semantics (valid / expected), spelling generators, scenario
serialisation for harness/argh_interp.cpp and batch execution.

The model works on the *abstract* command line (ordered list of uses of arguments with their
intended values) - it never parses argv; spellings are generated from the abstract line, so the
expected verdict/values are known by construction.
"""
import os
import zlib
import random
import re
import struct
import subprocess

import vcommon as vc

INT_MIN, INT_MAX = -2**31, 2**31 - 1

# ---------------------------------------------------------------- slot kinds

# kind -> (category, element type)
KINDS = {
    "b": ("flag", "bool"), "i": ("scalar", "int"), "l": ("scalar", "long"), "u": ("scalar", "unsigned"),
    "q": ("scalar", "long"), "d": ("scalar", "double"), "s": ("scalar", "string"),
    "oi": ("scalar", "int"), "os": ("scalar", "string"), "ob": ("flag", "bool"), "lc": ("level", "int"),
    "vi": ("seq", "int"), "vs": ("seq", "string"), "vd": ("seq", "double"), "li": ("seq", "int"), "ds": ("seq", "string"),
    "si": ("set", "int"), "ss": ("set", "string"), "msi": ("multiset", "int"), "us": ("uset", "string"),
    "fl": ("fwd", "int"), "qu": ("queue", "int"), "st": ("stack", "int"), "pq": ("pqueue", "int"),
    "ca": ("array4", "int"), "ar": ("array3", "int"), "tu": ("tuple", "mixed"),
    "bs": ("bitset16", "pos"), "bb": ("bitset100", "pos"), "vb": ("vecbool", "pos"), "db": ("dynbitset", "pos"),
    "mp": ("map", "kv"), "mm": ("multimap", "kv"), "um": ("umap", "kv"),
}


def kind_of(slot):
    return re.match(r"[a-z]+", slot).group(0)


def cat_of(slot):
    return KINDS[kind_of(slot)][0]


def elem_of(slot):
    return KINDS[kind_of(slot)][1]


def is_container(slot):
    return cat_of(slot) not in ("flag", "scalar", "level")


def hx(s):
    if isinstance(s, str):
        s = s.encode("latin-1")
    return s.hex() if s else "-"


def unhx(h):
    return "" if h == "-" else bytes.fromhex(h).decode("latin-1")


# ---------------------------------------------------------------- data model

class Arg:
    """one defined argument"""
    def __init__(self, slot, short=None, long=None, spec=None):
        self.slot, self.short, self.long = slot, short, long
        self.spec = spec          # string given to addArgument (None = canonical)
        self.mandatory = False
        self.vm = None            # None = default of the type; 'opt' | 'req'
        self.card = None          # None = default; ('none',) | ('max',n) | ('exact',n) | ('range',a,b)
        self.checks = []          # ('lower',x) ('upper',x) ('range',a,b) ('values',[...]) ('minlen',n) ('maxlen',n) ('pattern',re)
        self.formats = []         # 'upper' | 'lower'
        self.posformats = []      # (value index, 'upper' | 'lower'): addFormatPos()
        self.pairfmt = None       # key-value destinations: setPairFormat() string (1 or 3 characters)
        self.fmtkey, self.fmtval = [], []   # addFormatKey() / addFormatValue()
        self.sep = None
        self.clear = self.sort = self.unique = self.uniqueerr = self.multi = False
        self.hidden = self.deprecated = False
        self.replaced = None
        self.excludes, self.requires = [], []   # lists of Arg
        self.unset = False
        self.allowmix = False
        self.init = None          # scalar: text or None; container: list of element texts
        self.desc = "desc"
        self.member = 0           # group member index (C08)
        self.printdef = None

    def keyspec(self):
        if self.spec is not None:
            return self.spec
        if self.short and self.long:
            return "%s,%s" % (self.short, self.long)
        return self.short or self.long

    def refspec(self, rng=None, salt=None):
        """how a constraint refers to this argument"""
        forms = []
        if self.short:
            forms.append(self.short)
        if self.long:
            forms.append(self.long)
        if self.short and self.long:
            forms.append("%s,%s" % (self.short, self.long))
        if salt is not None:
            # deterministic, but different for different referring arguments / constraints: a constraint may name an argument
            # by its short key, its long key or both
            return forms[zlib.crc32((str(salt) + "|" + self.slot).encode()) % len(forms)]
        return rng.choice(forms) if rng else forms[-1]

    def default_card(self):
        if self.card is not None:
            return self.card
        if is_container(self.slot) or cat_of(self.slot) == "level":
            return ("none",)
        return ("max", 1)

    def value_mode(self):
        if self.vm:
            return self.vm
        c = cat_of(self.slot)
        if c == "flag":
            return "none"
        if c == "level":
            return "opt"
        return "req"

    def sepchar(self):
        if self.sep:
            return self.sep
        return ";" if cat_of(self.slot) in ("map", "multimap", "umap") else ","


class Config:
    def __init__(self, flags=0):
        self.flags = flags
        self.args = []
        self.constraints = []     # (kind, [Arg...], member)
        self.groups = None        # None = single handler; else list of (name, flags)
        self.group_flags = 0
        self.env_name = None
        self.files = []           # (relpath, content)
        self.env = []             # (name, value)
        self.line_len = None
        self.subgroup = None      # (key spec, flags, [Arg...]): an argument whose value is another handler (C18)

    def builtin_longs(self):
        f, r = self.flags, []
        if f & 0x02:
            r.append("help")
        if f & 0x04:
            r.append("help-arg")
        if f & 0x08:
            r.append("help-arg-full")
        if f & 0x200:
            r.append("print-hidden")
        if f & 0x800:
            r.append("print-deprecated")
        if f & 0x1000:
            r.append("help-short")
        if f & 0x2000:
            r.append("help-long")
        if f & 0x4000:
            r.append("list-arg-vars")
        if f & 0x10000:
            r.append("endvalues")
        if f & 0x20000:
            r.append("list-arg-groups")
        return r

    def all_longs(self, member=None):
        r = [a.long for a in self.args if a.long and (member is None or a.member == member)]
        return r + self.builtin_longs()

    def abbr_enabled(self):
        return not (self.flags & 0x80)


HF = dict(helpShort=0x01, helpLong=0x02, helpArg=0x04, helpArgFull=0x08, readProgArg=0x10, envVarArgs=0x20,
          verbose=0x40, noAbbr=0x80, usageHidden=0x100, argHidden=0x200, usageDeprecated=0x400,
          argDeprecated=0x800, usageShort=0x1000, usageLong=0x2000, listArgVar=0x4000, usageCont=0x8000,
          endValues=0x10000, listArgGroups=0x20000)


class Use:
    """one use of an argument on the abstract command line; elems = None (no value) or list of element texts
    (scalars: exactly one)"""
    def __init__(self, arg, elems=None):
        self.arg, self.elems = arg, elems

    def __repr__(self):
        return "%s%s" % (self.arg.keyspec(), "" if self.elems is None else "=" + repr(self.elems))


# ---------------------------------------------------------------- model: conversion of element texts

def conv(etype, text):
    """text -> python value as the destination type would hold it; raises ValueError when it does not convert"""
    if etype == "int":
        if not re.fullmatch(r"[+-]?\d+", text):
            raise ValueError(text)
        v = int(text)
        if not INT_MIN <= v <= INT_MAX:
            raise ValueError(text)
        return v
    if etype == "long":
        if not re.fullmatch(r"[+-]?\d+", text):
            raise ValueError(text)
        v = int(text)
        if not -2**63 <= v <= 2**63 - 1:
            raise ValueError(text)
        return v
    if etype == "unsigned":
        if not re.fullmatch(r"\+?\d+", text):
            raise ValueError(text)
        v = int(text)
        if not 0 <= v <= 2**32 - 1:
            raise ValueError(text)
        return v
    if etype == "pos":
        if not re.fullmatch(r"\+?\d+", text):
            raise ValueError(text)
        return int(text)
    if etype == "double":
        return float(text)
    if etype == "string":
        return text
    raise ValueError(etype)


def check_elem(arg, text, etype):
    """True iff the element passes every check attached to the argument (checks see the raw text)"""
    for c in arg.checks:
        k = c[0]
        try:
            if k == "lower":
                if conv(c[2], text) < c[1]:
                    return False
            elif k == "upper":
                if conv(c[2], text) >= c[1]:
                    return False
            elif k == "range":
                v = conv(c[3], text)
                if v < c[1] or v >= c[2]:
                    return False
            elif k == "values":
                if text not in c[1]:
                    return False
            elif k == "minlen":
                if len(text) < c[1]:
                    return False
            elif k == "maxlen":
                if len(text) > c[1]:
                    return False
            elif k == "pattern":
                if not re.fullmatch(c[1], text):          # CheckPattern uses std::regex_match: the whole value
                    return False
        except ValueError:
            return False
    return True


def fmt_elem(arg, text, pos=None):
    """general formats, then (pos given) the formats added for that value position"""
    for f in list(arg.formats) + [f for i, f in arg.posformats if pos is not None and i == pos]:
        # the C locale: ASCII letters only
        if f == "upper":
            text = "".join(ch.upper() if "a" <= ch <= "z" else ch for ch in text)
        elif f == "lower":
            text = "".join(ch.lower() if "A" <= ch <= "Z" else ch for ch in text)
    return text


# ---------------------------------------------------------------- model: validity and expected values

def valid(cfg, uses):
    """(ok, reason) for an abstract line, in the documented order-sensitive sense"""
    used = {}
    excluded = {}
    required = {}
    group_used = {}          # id(constraint) -> arg
    abstain = None
    level = {}
    for u in uses:
        a = u.arg
        if a.deprecated or a.replaced:
            return False, "deprecated"
        if id(a) in excluded:
            return False, "excluded"
        required.pop(id(a), None)
        for ci, (kind, members, _m) in enumerate(cfg.constraints):
            if kind in ("any_of", "one_of") and a in members:
                prev = group_used.get(ci)
                if prev is not None and prev is not a:
                    return False, kind
                if prev is a:
                    abstain = "repeated-member-of-" + kind
                group_used[ci] = a
        vm = a.value_mode()
        if cat_of(a.slot) == "level":
            cur = level.get(a.slot, init_value(a))
            if u.elems is None:
                if not check_elem(a, str(cur + 1), "int"):
                    return False, "check"
                level[a.slot] = cur + 1
            else:
                try:
                    level[a.slot] = conv("int", u.elems[0])
                except ValueError:
                    return False, "conversion"
        if u.elems is None:
            if vm == "req":
                return False, "missing-value"
            n = 1
        else:
            if vm == "none":
                return False, "unexpected-value"
            et = elem_of(a.slot)
            n = len(u.elems)
            for e in u.elems:
                if not check_elem(a, e, et if et not in ("mixed", "kv") else "string"):
                    return False, "check"
                try:
                    if et not in ("mixed", "kv"):
                        conv(et, fmt_elem(a, e))
                except ValueError:
                    return False, "conversion"
        card = a.default_card()
        used[id(a)] = used.get(id(a), 0) + max(n, 1)
        if card[0] in ("max", "exact") and used[id(a)] > card[1]:
            return False, "cardinality"
        if card[0] == "range" and card[2] != -1 and used[id(a)] > card[2]:
            return False, "cardinality"
        for x in a.excludes:
            excluded[id(x)] = a
        for x in a.requires:
            required[id(x)] = a
    for a in cfg.args:
        n = used.get(id(a), 0)
        if a.mandatory and n == 0:
            return False, "mandatory"
        card = a.default_card()
        if card[0] == "exact" and n > 0 and n != card[1]:
            return False, "cardinality"
        if card[0] == "range" and n > 0 and n < card[1]:
            return False, "cardinality"
    if required:
        return False, "requires"
    if abstain:
        return None, abstain
    for ci, (kind, members, _m) in enumerate(cfg.constraints):
        nused = sum(1 for m in members if used.get(id(m), 0) > 0)
        if kind == "all_of" and 0 < nused < len(members):
            return False, "all_of"
        if kind == "all_of" and nused == 0:
            return None, "all_of-none-used-not-judged"
        if kind == "one_of" and nused == 0:
            return False, "one_of"
    try:
        exp = expected(cfg, uses)
    except ModelAbstain as e:
        return None, str(e)
    except ValueError:
        return False, "conversion"
    for kind, members, _m in cfg.constraints:
        if kind == "differ":
            vals = [exp[m.slot] for m in members if used.get(id(m), 0) > 0]
            if len(vals) != len(set(map(repr, vals))):
                return False, "differ"
        if kind == "disjoint":
            a, b = members
            # "no value may exist in both data sets": the data sets are the destination containers
            if set(map(repr, exp[a.slot])) & set(map(repr, exp[b.slot])):
                return False, "disjoint"
    return True, ""


class ModelAbstain(Exception):
    pass


def init_value(a):
    c = cat_of(a.slot)
    et = elem_of(a.slot)
    if c == "flag":
        if kind_of(a.slot) == "ob":
            return None if a.init is None else (a.init == "1")
        return a.init == "1"
    if c in ("scalar", "level"):
        if kind_of(a.slot) in ("oi", "os"):
            return None if a.init is None else conv(et, a.init)
        if a.init is None:
            return "" if et == "string" else (0.0 if et == "double" else 0)
        return conv(et, a.init)
    return [conv(et, e) for e in (a.init or [])]


def expected(cfg, uses):
    """slot -> expected python value after a VALID line"""
    state = {}
    cleared = set()
    level_mode = {}
    for a in cfg.args:
        state[a.slot] = init_value(a)
    for u in uses:
        a = u.arg
        c = cat_of(a.slot)
        et = elem_of(a.slot)
        if c == "flag":
            if kind_of(a.slot) == "ob":
                state[a.slot] = not a.unset
            else:
                state[a.slot] = not init_value(a)
        elif c == "scalar":
            state[a.slot] = conv(et, fmt_elem(a, u.elems[0]))
        elif c == "level":
            if u.elems is None:
                state[a.slot] += 1
            else:
                state[a.slot] = conv("int", u.elems[0])
        else:
            cur = state[a.slot]
            if a.clear and a.slot not in cleared:
                cur = []
                cleared.add(a.slot)
            vals = [conv(et, fmt_elem(a, e)) for e in u.elems]
            cur = fold(c, a, cur, vals)
            state[a.slot] = cur
    return state


def fold(c, a, cur, vals):
    """documented fold of one use (value list) into the container content `cur` (python list in the
    canonical dump order of the container kind)"""
    cur = list(cur)
    if c in ("seq", "queue"):
        for v in vals:
            if a.unique and v in cur:
                if a.uniqueerr:
                    raise ModelAbstain("duplicate refused")
                continue
            cur.append(v)
        if a.sort:
            cur.sort()
        return cur
    if c == "fwd":
        for v in vals:
            if a.unique and v in cur:
                continue
            cur.insert(0, v)
        if a.sort:
            cur.sort()
        return cur
    if c == "set":
        return sorted(set(cur) | set(vals))
    if c == "uset":
        return sorted(set(cur) | set(vals))
    if c == "multiset":
        for v in vals:
            if a.unique and v in cur:
                continue
            cur.append(v)
        return sorted(cur)
    if c == "stack":
        # dump order: top first
        for v in vals:
            if a.unique and v in cur:
                continue
            cur.insert(0, v)
        return cur
    if c == "pqueue":
        for v in vals:
            if a.unique and v in cur:
                continue
            cur.append(v)
        return sorted(cur, reverse=True)
    raise ModelAbstain("no fold for " + c)


# ---------------------------------------------------------------- dump parsing (interpreter -> python values)

def parse_dump(slot, text):
    c = cat_of(slot)
    et = elem_of(slot)

    def pe(t, etype):
        if t == "~":
            return None
        if etype in ("int", "long", "unsigned", "pos"):
            return int(t)
        if etype == "double":
            return float.fromhex(t)
        if etype == "string":
            return bytes.fromhex(t[1:]).decode("latin-1")
        if etype == "bool":
            return t == "1"
        return t
    if c == "flag":
        return pe(text, "bool")
    if c in ("scalar", "level"):
        return pe(text, et)
    if text.startswith("["):
        inner = text[1:-1]
        if not inner:
            return []
        if et in ("mixed", "kv"):
            return inner.split(",")
        return [pe(x, et) for x in inner.split(",")]
    return text


def values_equal(slot, got, exp):
    et = elem_of(slot)
    if et == "double":
        def close(a, b):
            if a is None or b is None:
                return a is b
            if a == b:
                return True
            return abs(a - b) <= abs(b) * 2.3e-16
        if isinstance(exp, list):
            return len(got) == len(exp) and all(close(a, b) for a, b in zip(got, exp))
        return close(got, exp)
    return got == exp


# ---------------------------------------------------------------- spelling

CTRL = ("(", ")", "!")


def value_ok_as_word(v):
    """may the value be given as a separate next word? (not taken for a key / control character)"""
    return not v.startswith("-") and v not in CTRL


def unique_prefixes(cfg, arg):
    """proper prefixes (len >= 2) of arg.long that designate arg unambiguously"""
    if not arg.long or not cfg.abbr_enabled():
        return []
    longs = cfg.all_longs(arg.member if cfg.groups else None)
    res = []
    for n in range(2, len(arg.long)):
        p = arg.long[:n]
        if p in longs:
            continue        # an exact key of some argument
        if sum(1 for l in longs if l.startswith(p)) == 1:
            res.append(p)
    return res


def join_elems(arg, elems):
    return arg.sepchar().join(elems)


def spell_use(cfg, u, rng, style):
    """-> list of words for one use. style: dict with 'key' in short|long|abbr|any and 'val' in word|eq|glue|any"""
    a = u.arg
    forms = []
    if a.short:
        forms.append("short")
    if a.long:
        forms.append("long")
        if unique_prefixes(cfg, a):
            forms.append("abbr")
    want = style.get("key", "any")
    kf = want if want in forms else rng.choice(forms)
    if kf == "short":
        key = "-" + a.short
    elif kf == "long":
        key = "--" + a.long
    else:
        key = "--" + rng.choice(unique_prefixes(cfg, a))
    if u.elems is None:
        return [key], kf, "none"
    val = join_elems(a, u.elems) if is_container(a.slot) else u.elems[0]
    vforms = []
    vm = a.value_mode()
    if value_ok_as_word(val):
        vforms.append("word")
    if kf != "short":
        vforms.append("eq")
    elif vm == "req" and val != "":
        vforms.append("glue")
    if not vforms:
        # short key only, value cannot be a word: fall back to long if possible
        if a.long:
            return ["--" + a.long + "=" + val], "long", "eq"
        raise ModelAbstain("value not spellable")
    wantv = style.get("val", "any")
    vf = wantv if wantv in vforms else rng.choice(vforms)
    if vf == "word":
        return [key, val], kf, vf
    if vf == "eq":
        return [key + "=" + val], kf, vf
    return [key + val], kf, vf


def spell_line(cfg, uses, rng, style=None, group_flags=True):
    """-> (argv words without argv[0], stats) for an ordered abstract line"""
    style = style or {}
    words = []
    stats = {}
    pending_group = None      # list of short flag chars collected for grouping
    for u in uses:
        w, kf, vf = spell_use(cfg, u, rng, style)
        stats["key." + kf] = stats.get("key." + kf, 0) + 1
        stats["val." + vf] = stats.get("val." + vf, 0) + 1
        a = u.arg
        can_group = group_flags and kf == "short" and style.get("group", "any") != "never"
        if can_group and (style.get("group") == "max" or rng.random() < 0.5):
            # try to append to the pending group
            if pending_group is not None:
                if u.elems is None and a.value_mode() == "none":
                    pending_group.append(a.short)
                    stats["grouped"] = stats.get("grouped", 0) + 1
                    continue
                if vf in ("glue", "word") and a.value_mode() == "req":
                    # value-taking key closes the group
                    g = "-" + "".join(pending_group) + a.short
                    pending_group = None
                    stats["grouped"] = stats.get("grouped", 0) + 1
                    if vf == "glue":
                        words.append(g + w[0][2:])
                    else:
                        words.append(g)
                        words.append(w[1])
                    continue
            elif u.elems is None and a.value_mode() == "none":
                pending_group = [a.short]
                continue
        if pending_group is not None:
            words.append("-" + "".join(pending_group))
            pending_group = None
        words += w
    if pending_group is not None:
        words.append("-" + "".join(pending_group))
    return words, stats


# ---------------------------------------------------------------- scenario serialisation

def scenario_text(sid, tag, cfg, argv, prog="prog", as_string=None):
    """as_string: (text, program name or None) - the arguments are handed over as one string (evalArgumentString)"""
    L = ["S %s %s" % (sid, tag)]
    if cfg.groups is None:
        # 'list argument groups' only exists for handlers of a group
        L.append("F %d" % (cfg.flags & ~HF["listArgGroups"]))
    else:
        L.append("GF %d" % cfg.group_flags)
    for a in cfg.args:
        if a.init is not None:
            if isinstance(a.init, list):
                L.append("I %s %s" % (a.slot, hx("\x1f".join(a.init))))
            else:
                L.append("I %s %s" % (a.slot, hx(a.init)))

    def arg_line(a):
        o = []
        if a.mandatory:
            o.append("mand")
        # order matters for containers: clear before vm=opt
        if a.clear:
            o.append("clear")
        if a.vm:
            o.append("vm=" + a.vm)
        if a.card is not None:
            o.append("card=" + ":".join(str(x) for x in a.card))
        for c in a.checks:
            if c[0] in ("lower", "upper"):
                o.append("%s=%s" % (c[0], hx(str(c[1]))))
            elif c[0] == "range":
                o.append("range=%s:%s" % (hx(str(c[1])), hx(str(c[2]))))
            elif c[0] == "values":
                o.append("values=" + hx(",".join(c[1])))
            elif c[0] in ("minlen", "maxlen"):
                o.append("%s=%d" % (c[0], c[1]))
            elif c[0] == "pattern":
                o.append("pattern=" + hx(c[1]))
        for f in a.formats:
            o.append("fmt=" + f)
        for i, f in a.posformats:
            o.append("fmtpos=%d:%s" % (i, f))
        for f in a.fmtkey:
            o.append("fmtkey=" + f)
        for f in a.fmtval:
            o.append("fmtval=" + f)
        if a.sep:
            o.append("sep=%d" % ord(a.sep))
        if a.sort:
            o.append("sort")
        if a.unique and a.uniqueerr:
            o.append("uniqueerr")
        elif a.unique:
            o.append("unique")
        if a.multi:
            o.append("multi")
        if a.pairfmt:
            o.append("pairfmt=" + hx(a.pairfmt))       # after sep: the pair format must not contain the list separator
        if a.hidden:
            o.append("hidden")
        if a.deprecated:
            o.append("depr")
        if a.replaced:
            o.append("repl=" + hx(a.replaced))
        if a.unset:
            o.append("unset")
        if a.allowmix:
            o.append("allowmix")
        if a.printdef is not None:
            o.append("printdef=%d" % a.printdef)
        return "A %s %s %s %s" % (a.slot, hx(a.keyspec()), hx(a.desc), " ".join(o))

    def subgroup_lines():
        r = ["SG %s %d" % (hx(cfg.subgroup[0]), cfg.subgroup[1])]
        for a in cfg.subgroup[2]:
            if a.init is not None:
                r.append("I %s %s" % (a.slot, hx("\x1f".join(a.init) if isinstance(a.init, list) else a.init)))
            r.append(arg_line(a).rstrip())
        r.append("SE")
        return r

    def cons_lines(member):
        r = []
        for a in cfg.args:
            if a.member != member:
                continue
        return r

    members = [None] if cfg.groups is None else list(range(len(cfg.groups)))
    if cfg.groups is not None and getattr(cfg, "interleave", False):
        # all member handlers are created first, then the arguments are added in the order of cfg.args (members
        # interleaved), then the handler constraints
        for m in members:
            L.append("G %s %d" % (hx(cfg.groups[m][0]), cfg.groups[m][1]))
        cur = members[-1]
        for a in cfg.args:
            if a.member != cur:
                cur = a.member
                L.append("G %s %d" % (hx(cfg.groups[cur][0]), cfg.groups[cur][1]))
            L.append(arg_line(a).rstrip())
        for kind, mem, cm in cfg.constraints:
            L.append("G %s %d" % (hx(cfg.groups[cm][0]), cfg.groups[cm][1]))
            L.append("C %s %s" % (kind, hx(";".join(x.refspec() for x in mem))))
        members = []
    for m in members:
        if m is not None:
            L.append("G %s %d" % (hx(cfg.groups[m][0]), cfg.groups[m][1]))
        for a in cfg.args:
            if m is None or a.member == m:
                L.append(arg_line(a).rstrip())
        for kind, mem, cm in cfg.constraints:
            if (m is None) or cm == m:
                L.append("C %s %s" % (kind, hx(";".join(x.refspec() for x in mem))))
        if cfg.subgroup is not None and m is not None and getattr(cfg, "subgroup_member", None) == m:
            L += subgroup_lines()
    # excludes / requires are attached on the A line (spec string only)
    out = []
    for ln in L:
        out.append(ln)
    # patch A lines with excl/req
    res = []
    amap = {}
    for a in cfg.args:
        amap[hx(a.keyspec())] = a
    for ln in out:
        if ln.startswith("A "):
            parts = ln.split(" ")
            a = amap.get(parts[2])
            if a is not None:
                if a.excludes:
                    ln += " excl=" + hx(";".join(x.refspec(salt="e" + a.slot) for x in a.excludes))
                if a.requires:
                    ln += " req=" + hx(";".join(x.refspec(salt="r" + a.slot) for x in a.requires))
        res.append(ln)
    if cfg.subgroup is not None and not (cfg.groups is not None and getattr(cfg, "subgroup_member", None) is not None):
        res += subgroup_lines()
    if getattr(cfg, "arg_file_key", None):
        res.append("AF " + hx(cfg.arg_file_key))
    if cfg.env_name is not None:
        res.append("N " + hx(cfg.env_name))
    if cfg.line_len:
        res.append("L %d" % cfg.line_len)
    for p, c in cfg.files:
        res.append("P %s %s" % (hx(p), hx(c)))
    for n, v in cfg.env:
        res.append("E %s %s" % (hx(n), hx(v)))
    if as_string is not None:
        res.append("VS " + hx(as_string[0]) + ("" if as_string[1] is None else " " + hx(as_string[1])))
    else:
        res.append("V " + " ".join(hx(w) for w in [prog] + list(argv)))
    res.append("R")
    return "\n".join(res) + "\n"


# ---------------------------------------------------------------- execution

class Result:
    __slots__ = ("sid", "status", "etype", "ewhat", "slots", "out", "err", "words", "crash", "addfails")

    def __init__(self, sid):
        self.sid, self.status, self.etype, self.ewhat = sid, None, "", ""
        self.slots, self.out, self.err, self.words, self.crash, self.addfails = {}, "", "", None, None, {}


def parse_result_line(line):
    parts = line.split(" | ")
    head = parts[0].split(" ")
    r = Result(head[1])
    r.status, r.etype, r.ewhat = head[2], unhx(head[3]), unhx(head[4])
    if len(parts) > 1 and parts[1].strip():
        for tok in parts[1].strip().split(" "):
            k, _, v = tok.partition("=")
            r.slots[k] = v
    if len(parts) > 2:
        for tok in parts[2].strip().split(" "):
            if tok.startswith("O="):
                r.out = unhx(tok[2:])
            elif tok.startswith("X="):
                r.err = unhx(tok[2:])
            elif tok.startswith("T=") and tok != "T=-":
                for it in tok[2:].split(","):
                    sl, _, ex = it.partition(":")
                    r.addfails[sl] = unhx(ex)
    return r


_interp_exe = {}


def interp_exe(flavour="asan"):
    if os.environ.get("VERIF_INTERP_EXE"):          # development only: lib/devtools/coverage.py
        return os.environ["VERIF_INTERP_EXE"]
    if flavour not in _interp_exe:
        _interp_exe[flavour] = vc.build_harness("argh_interp", ["argh_interp.cpp"], flavour,
                                                extra_ldflags=["-Wl,--wrap=exit"])
    return _interp_exe[flavour]


def run_batch(exe, texts, tag, flavour="asan", timeout=600):
    """texts: list of scenario texts (ids must be unique). -> (dict id -> Result, infra list).
    A scenario that crashes the interpreter gets Result.status == 'crash' with .crash = dict(kind, func, report, descr)."""
    sdir = vc.scratch()
    base = os.path.join(sdir, "batch-%s-%d-%d" % (tag, os.getpid(), random.getrandbits(32)))
    path = base + ".txt"
    home = base + ".home"
    with open(path, "w", encoding="latin-1") as fh:
        fh.write("".join(texts))
    ids = [t.split("\n", 1)[0].split(" ")[1] for t in texts]
    results, infra = {}, []
    start, n = 0, len(texts)
    hang_retry = {}
    env = vc.flavour_env(flavour)
    restarts = 0
    while start < n:
        prog = vc.new_progress(tag)
        argv = [exe, "--file", path, "--home", home, "--start", str(start), "--count", str(n - start), "--progress", prog]
        try:
            p = subprocess.run(argv, stdout=subprocess.PIPE, stderr=subprocess.PIPE, env=env, timeout=timeout)
            out, err, rc, to = p.stdout.decode("latin-1"), p.stderr.decode("latin-1", "replace"), p.returncode, False
        except subprocess.TimeoutExpired as e:
            out, err, rc, to = (e.stdout or b"").decode("latin-1"), (e.stderr or b"").decode("latin-1", "replace"), -9, True
        done = False
        for line in out.splitlines():
            if line.startswith("R "):
                r = parse_result_line(line)
                if r.sid in results and results[r.sid].words is not None:
                    r.words = results[r.sid].words
                results[r.sid] = r
            elif line.startswith("W "):
                t = line.split(" ")
                r = results.get(t[1]) or Result(t[1])
                argc = int(t[2])
                r.words = dict(argc=argc, words=[unhx(x) for x in t[3:3 + argc]], term=t[3 + argc] if len(t) > 3 + argc else "?")
                results[t[1]] = r
            elif line == "DONE":
                done = True
        idx, descr = vc.read_progress(prog)
        try:
            os.unlink(prog)
        except OSError:
            pass
        if done and rc == 0:
            break
        if idx is None:
            infra.append("interpreter died before its first scenario rc=%s: %s" % (rc, err[-800:]))
            break
        sid = ids[idx] if idx < len(ids) else "?"
        if to:
            k = hang_retry.get(idx, 0) + 1
            hang_retry[idx] = k
            if k < 2:
                start = idx
                continue
            r = Result(sid)
            r.status, r.crash = "crash", dict(kind="hang", func="?", report="watchdog fired twice on this scenario", descr=descr)
            results[sid] = r
        else:
            kind, func = vc.classify_report(err)
            r = Result(sid)
            r.status = "crash"
            r.crash = dict(kind=kind, func=func, report=err[-6000:], descr=descr)
            results[sid] = r
        start = idx + 1
        restarts += 1
        if restarts > 300:
            infra.append("too many interpreter restarts in one batch")
            break
    try:
        os.unlink(path)
    except OSError:
        pass
    subprocess.run(["rm", "-rf", home])
    return results, infra
