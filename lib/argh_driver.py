"""Parallel case runner for the interpreter-based checks (C01-C08, C18).

A property module provides
    PROP, LEVEL, RULE, ASSUMPTIONS, TAG
    cases(tier) -> number of cases
    gen_case(seed, idx, tier) -> Case            (pure function of its arguments)
    judge(case, results, rep)                    (rep.viol(key, detail), rep.stat(name), rep.sample(text), rep.distinct(h))
"""
import hashlib
import importlib
import json
import pickle
import subprocess
import os
import random
import sys
import time

import argh
import vcommon as vc


class Case:
    def __init__(self, idx):
        self.idx = idx
        self.scenarios = []      # list of (sid, text)
        self.meta = {}
        self.skip = None         # reason when the generator abstained

    def add(self, tag, text_fn):
        sid = "%d.%d" % (self.idx, len(self.scenarios))
        self.scenarios.append((sid, text_fn(sid)))
        return sid


def case_rng(seed, prop, idx):
    h = hashlib.sha256(("%d|%s|%d" % (seed, prop, idx)).encode()).digest()
    return random.Random(int.from_bytes(h[:8], "little"))


class Reporter:
    def __init__(self):
        self.stats, self.viols, self.samples, self.hashes, self.infra = {}, [], [], set(), []
        self.cur = None

    def stat(self, k, n=1):
        self.stats[k] = self.stats.get(k, 0) + n

    def viol(self, key, detail, texts=None):
        self.stat("violations_observed")
        if sum(1 for v in self.viols if v[0] == key) < 3:
            self.viols.append((key, detail[:1500], self.cur.idx if self.cur else -1, texts or []))

    def sample(self, text):
        if len(self.samples) < 3:
            self.samples.append(text[:600])

    def distinct(self, text):
        self.hashes.add(hashlib.blake2b(text.encode("latin-1", "replace"), digest_size=8).digest())


def _worker(a):
    modname, tier, seed, first, count, batch, widx = a
    sys.path.insert(0, os.path.join(vc.VERIF, "lib", "props"))
    mod = importlib.import_module(modname)
    rep = Reporter()
    try:
        exe = argh.interp_exe(getattr(mod, "FLAVOUR", "asan"))
        for b in range(first, first + count, batch):
            cases = []
            for idx in range(b, min(b + batch, first + count)):
                c = mod.gen_case(seed, idx, tier)
                cases.append(c)
            texts = [t for c in cases for (_s, t) in c.scenarios]
            results, infra = argh.run_batch(exe, texts, "%s-w%d" % (mod.PROP, widx), getattr(mod, "FLAVOUR", "asan")) if texts else ({}, [])
            rep.infra += infra
            for c in cases:
                rep.cur = c
                rep.stat("cases")
                if c.skip:
                    rep.stat("abstain." + c.skip)
                    continue
                rep.stat("scenarios", len(c.scenarios))
                # crashes first: same treatment for every property
                crashed = False
                for sid, text in c.scenarios:
                    r = results.get(sid)
                    if r is None:
                        rep.infra.append("no result for scenario %s" % sid)
                        crashed = True
                    elif r.status == "crash":
                        crashed = True
                        tag = text.split("\n", 1)[0].split(" ")[2]
                        unj = getattr(mod, "unjudged_crash", None)
                        cat = unj(r.crash["kind"]) if unj else (r.crash["kind"] if r.crash["kind"].startswith("limit:") else None)
                        if cat:
                            rep.stat("unjudged." + cat)
                            continue
                        rep.viol("%s|%s|%s" % (tag, r.crash["kind"], r.crash["func"]),
                                 r.crash["descr"] + "\n" + r.crash["report"][-1500:], [text])
                if crashed and not getattr(mod, "JUDGE_CRASHED", False):
                    continue
                mod.judge(c, results, rep)
    except Exception:
        import traceback
        rep.infra.append("worker exception: " + traceback.format_exc()[-1500:])
    return dict(stats=rep.stats, viols=rep.viols, samples=rep.samples, hashes=list(rep.hashes), infra=rep.infra)


def worker_main(argv):
    """entry of a worker process: python3 argh_driver.py <mod> <tier> <seed> <first> <count> <batch> <widx> <outfile>"""
    modname, tier, seed, first, count, batch, widx, outfile = argv
    res = _worker((modname, tier, int(seed), int(first), int(count), int(batch), int(widx)))
    with open(outfile + ".tmp", "wb") as fh:
        pickle.dump(res, fh)
    os.replace(outfile + ".tmp", outfile)


def run(mod, tier, seed):
    chk = vc.Check(mod.PROP, tier, seed, getattr(mod, "LEVEL", "exploration"))
    chk.coverage["rule"] = mod.RULE
    chk.assumptions = list(getattr(mod, "ASSUMPTIONS", []))
    try:
        argh.interp_exe(getattr(mod, "FLAVOUR", "asan"))     # build once; the workers find it in the cache
        total = int(os.environ.get("VERIF_CASES") or mod.cases(tier))   # VERIF_CASES: development only
        nw = min(vc.NCPU, max(1, total // 50))
        per = (total + nw - 1) // nw
        batch = getattr(mod, "BATCH", 100)
        procs = []
        for w in range(nw):
            first = w * per
            cnt = min(per, total - first)
            if cnt <= 0:
                continue
            outfile = os.path.join(vc.scratch(), "w%d.pickle" % w)
            cmd = [sys.executable, os.path.abspath(__file__), mod.__name__, tier, str(seed), str(first), str(cnt), str(batch), str(w), outfile]
            procs.append((w, outfile, subprocess.Popen(cmd, stdout=subprocess.PIPE, stderr=subprocess.STDOUT)))
        outs = []
        limit = getattr(mod, "TIMEOUT", {"quick": 3600, "thorough": 6 * 3600})[tier]
        t0 = time.time()
        for w, outfile, p in procs:
            try:
                so, _ = p.communicate(timeout=max(10, limit - (time.time() - t0)))
            except subprocess.TimeoutExpired:
                p.kill()
                so, _ = p.communicate()
                chk.infra.append("worker %d exceeded the watchdog" % w)
            try:
                with open(outfile, "rb") as fh:
                    outs.append(pickle.load(fh))
            except (OSError, pickle.PickleError, EOFError):
                chk.infra.append("worker %d produced no result (rc=%s): %s" % (w, p.returncode, (so or b"").decode("utf-8", "replace")[-800:]))
        hashes = set()
        for o in outs:
            chk.add_stats(o["stats"])
            for key, detail, idx, texts in o["viols"]:
                chk.report(key, detail, dict(idx=idx, scenarios=texts))
            for s in o["samples"]:
                if len(chk.coverage["samples"]) < 8:
                    chk.coverage["samples"].append(s)
            hashes.update(o["hashes"])
            chk.infra += o["infra"][:5]
        chk.coverage["evaluations"] = chk.counters.get("scenarios", 0)
        chk.coverage["distinct_nontrivial"] = len(hashes)
        if hasattr(mod, "finalize"):
            mod.finalize(chk)
    except vc.HarnessError as e:
        chk.infra.append(str(e))
    return chk.finish()


def replay(mod, path):
    obj = json.load(open(path))
    idx = int(obj.get("idx", 0))
    seed = int(obj.get("seed", 1))
    tier = obj.get("tier", "quick")
    exe = argh.interp_exe(getattr(mod, "FLAVOUR", "asan"))
    c = mod.gen_case(seed, idx, tier)
    texts = [t for (_s, t) in c.scenarios]
    print("replay: case %d of %s (seed %d, tier %s), %d scenarios" % (idx, mod.PROP, seed, tier, len(texts)))
    results, infra = argh.run_batch(exe, texts, "replay", getattr(mod, "FLAVOUR", "asan"))
    rep = Reporter()
    rep.cur = c
    bad = False
    for sid, text in c.scenarios:
        r = results.get(sid)
        if r is not None and r.status == "crash":
            print(text)
            print(r.crash["report"][-3000:])
            bad = True
    if not bad and not c.skip:
        mod.judge(c, results, rep)
    for key, detail, _i, texts in rep.viols:
        print("violation: %s\n  %s" % (key, detail))
        for t in texts[:2]:
            print(t)
        bad = True
    if bad:
        print("VIOLATION property=%s replay=%s" % (mod.PROP, path))
        return vc.EXIT_VIOLATION
    print("replay: case passed")
    return vc.EXIT_OK


if __name__ == "__main__":
    sys.path.insert(0, os.path.join(vc.VERIF, "lib", "props"))
    worker_main(sys.argv[1:])
