"""Generators for argument-handler configurations, values and abstract command lines."""
import argh
from argh import Arg, Config, Use, HF, cat_of, elem_of, is_container, kind_of

SHORTS = "abcdefgijklmnopqrstuvwxyzABCDEFGXYZ"      # no 'h' (help), no digits
LONGS = ["in", "input", "input-file", "input-dir", "inp", "out", "output", "output-dir", "verbose", "value", "val",
         "values", "name", "number", "num", "list", "limit", "max", "max-size", "min", "min-size", "mode", "count",
         "color", "include", "index", "file", "files", "filter", "first", "last", "level", "length", "xy"]

INT_EDGE = [0, 1, -1, 2, 7, 42, 100, -100, 1000000, argh.INT_MAX, argh.INT_MIN, argh.INT_MAX - 1, argh.INT_MIN + 1]
LONG_EDGE = [0, 1, -1, 2**31, -2**31 - 1, 2**63 - 1, -2**63, 10**18]
UNS_EDGE = [0, 1, 2, 2**31, 2**32 - 1, 12345]
DOUBLE_TEXT = ["0", "1", "-1", "2.5", "-2.5", "3.25", "0.1", "1e-300", "1e300", "123456.789", "2.5e10", "-7.125e-5",
               "1.7976931348623157e308", "4.9e-324", "0.333333333333333", "100", "1e0"]
STR_ALPHA = "abcXYZ019 _.:/=+'\"\\@#%,;-()!\xe4\xf6"


def gen_text(rng, etype, elem=False, sep=None, small=False):
    """a value text for the element type. elem=True: container element (non-empty, without the separator)."""
    if etype == "int":
        if small:
            return str(rng.randint(0, 9))
        return str(rng.choice(INT_EDGE) if rng.random() < 0.5 else rng.randint(-10**6, 10**6))
    if etype == "long":
        return str(rng.choice(LONG_EDGE) if rng.random() < 0.5 else rng.randint(-10**12, 10**12))
    if etype == "unsigned":
        return str(rng.choice(UNS_EDGE) if rng.random() < 0.5 else rng.randint(0, 10**6))
    if etype == "double":
        return rng.choice(DOUBLE_TEXT)
    if etype == "pos":
        return str(rng.randint(0, 15))
    if etype == "string":
        if small:
            return rng.choice(["a", "b", "c", "ab", "x1", "B"])
        n = rng.choice([0, 1, 1, 2, 3, 5, 8, 12]) if not elem else rng.choice([1, 1, 2, 3, 5, 8])
        s = "".join(rng.choice(STR_ALPHA) for _ in range(n))
        if elem:
            s = s.replace(sep or ",", "_")
            if not s:
                s = "e"
        return s
    raise ValueError(etype)


def alloc_keys(rng, n, cfg, prefixy=True):
    """n distinct (short, long) pairs; shorts and longs unique; some short-only / long-only"""
    shorts = [c for c in SHORTS]
    rng.shuffle(shorts)
    longs = list(LONGS)
    rng.shuffle(longs)
    if prefixy:
        # make prefix chains likely: put a chain to the front
        chain = rng.choice([["in", "input", "input-file", "input-dir"], ["val", "value", "values"], ["max", "max-size"],
                            ["file", "files", "filter"], ["out", "output", "output-dir"], ["num", "number"]])
        rng.shuffle(chain)
        longs = chain + [l for l in longs if l not in chain]
    builtin = set(cfg.builtin_longs())
    longs = [l for l in longs if l not in builtin]
    res = []
    for i in range(n):
        form = rng.choice(["both", "both", "short", "long"])
        s = shorts.pop() if form in ("both", "short") else None
        l = longs.pop(0) if form in ("both", "long") else None
        res.append((s, l))
    return res


def spec_variant(rng, s, l):
    if s and l:
        return rng.choice(["%s,%s" % (s, l), "%s,%s" % (l, s), "-%s,--%s" % (s, l), "--%s,-%s" % (l, s), "%s,--%s" % (s, l)])
    if s:
        return rng.choice([s, "-" + s])
    return rng.choice([l, "--" + l])


C01_KINDS = ["b", "b", "i", "i", "l", "u", "q", "d", "s", "s", "oi", "os", "ob", "vi", "vs", "li", "ds", "vd"]
RULE_KINDS = ["b", "b", "i", "i", "i", "l", "u", "d", "s", "s", "oi", "os", "vi", "vs", "li", "lc"]


def next_slot(counts, kind):
    counts[kind] = counts.get(kind, 0) + 1
    return "%s%d" % (kind, counts[kind] - 1)


def gen_config(rng, profile):
    """profile: dict(kinds=[...], nargs=(lo,hi), flags=[...choices], rules=bool)"""
    cfg = Config(rng.choice(profile.get("flags", [0])))
    lo, hi = profile.get("nargs", (2, 8))
    n = rng.randint(lo, hi)
    keys = alloc_keys(rng, n, cfg, profile.get("prefixy", True))
    counts = {}
    force = profile.get("force")
    forced_kinds = {"differ": ["i", "i", "i"], "disjoint": ["vi", "vi"]}.get(force, [])
    for ki, (s, l) in enumerate(keys):
        kind = forced_kinds[ki] if ki < len(forced_kinds) else rng.choice(profile["kinds"])
        a = Arg(next_slot(counts, kind), s, l)
        if (cfg.flags & (HF["helpShort"])) and s == "h":
            a.short = None
            if not a.long:
                a.long = "hh"
        a.spec = spec_variant(rng, a.short, a.long)
        gen_init(rng, a)
        cfg.args.append(a)
    if profile.get("rules"):
        add_rules(rng, cfg, profile)
    return cfg


def gen_init(rng, a):
    c, et = cat_of(a.slot), elem_of(a.slot)
    k = kind_of(a.slot)
    if c == "flag":
        if k == "ob":
            a.init = None
        else:
            a.init = rng.choice(["0", "0", "1"])
    elif c == "scalar":
        if k in ("oi", "os"):
            a.init = None if rng.random() < 0.6 else (gen_text(rng, et) or None)
        else:
            a.init = gen_text(rng, et) if rng.random() < 0.5 else None
    elif c == "level":
        a.init = rng.choice([None, "0", "2"])
    else:
        m = rng.choice([0, 0, 1, 2])
        a.init = [gen_text(rng, et, elem=True, small=True) for _ in range(m)]
        if c in ("set", "uset"):
            a.init = sorted(set(a.init), key=lambda t: argh.conv(et, t))
        if c == "multiset":
            a.init = sorted(a.init, key=lambda t: argh.conv(et, t))
        if c == "pqueue":
            a.init = sorted(a.init, key=lambda t: argh.conv(et, t), reverse=True)
        if c == "seq" and rng.random() < 0.25:
            # clear-before-assign: the earlier content is discarded once, at the first use - whatever it was (also nothing)
            a.clear = True
        if c == "seq" and rng.random() < 0.2:
            # unique data: duplicates are dropped or (as error) refused; lines with a refused duplicate are not generated as valid
            a.unique = True
            a.uniqueerr = rng.random() < 0.5


def add_rules(rng, cfg, profile):
    """decorate a configuration with mandatory flags, checks, cardinalities, formats and constraints"""
    for a in cfg.args:
        c, et = cat_of(a.slot), elem_of(a.slot)
        if c != "flag" and rng.random() < 0.25:
            a.mandatory = True
            if is_container(a.slot):
                a.init = []          # a mandatory container with content counts as "has a value": not judged
            if kind_of(a.slot) in ("oi", "os"):
                a.init = None
        if c in ("scalar", "seq", "level") and rng.random() < 0.5:
            if et in ("int", "long", "unsigned"):
                lo = rng.choice([0, 1, 5, 10, -5]) if et != "unsigned" else rng.choice([0, 1, 5, 10])
                hi = lo + rng.choice([1, 2, 10, 1000])
                k = rng.choice(["lower", "upper", "range", "lower+upper"])
                if c == "level":
                    # (a lower bound of 1: the first increment of a fresh counter gives exactly the bound)
                    lo, k = rng.choice([0, 0, 1]), rng.choice(["upper", "range", "lower", "range"])
                    hi = rng.choice([3, 5, 10])
                if k == "lower":
                    a.checks.append(("lower", lo, et))
                elif k == "upper":
                    a.checks.append(("upper", hi, et))
                elif k == "range":
                    a.checks.append(("range", lo, hi, et))
                else:
                    a.checks.append(("lower", lo, et))
                    a.checks.append(("upper", hi, et))
            elif et == "double":
                lo = rng.choice([0.0, 0.5, -1.5])
                hi = lo + rng.choice([1.0, 2.5, 100.0])
                k = rng.choice(["lower", "upper", "range"])
                if k == "lower":
                    a.checks.append(("lower", lo, et))
                elif k == "upper":
                    a.checks.append(("upper", hi, et))
                else:
                    a.checks.append(("range", lo, hi, et))
            elif et == "string":
                k = rng.choice(["values", "minlen", "maxlen", "pattern", "minlen+maxlen"])
                if k == "values":
                    a.checks.append(("values", rng.sample(["red", "green", "blue", "on", "off", "x", "Yes"], 3)))
                elif k == "minlen":
                    a.checks.append(("minlen", rng.choice([1, 2, 3])))
                elif k == "maxlen":
                    a.checks.append(("maxlen", rng.choice([1, 3, 6])))
                elif k == "pattern":
                    a.checks.append(("pattern", rng.choice(["^[a-z]+$", "^[0-9]+$", "^a.*z$", "[a-z]+", "[0-9]+", "a.*z"])))
                else:
                    a.checks.append(("minlen", 2))
                    a.checks.append(("maxlen", 4))
        if et == "string" and c in ("scalar", "seq") and rng.random() < 0.2:
            a.formats.append(rng.choice(["upper", "lower"]))
        if rng.random() < 0.25:
            if c == "scalar":
                a.card = rng.choice([("none",), ("max", 2), ("max", 3), ("exact", 2), ("range", 1, 3)])
            elif c == "seq":
                a.card = rng.choice([("max", 2), ("max", 4), ("exact", 2), ("exact", 3), ("range", 2, 4)])
            elif c == "flag":
                a.card = rng.choice([("none",), ("max", 2)])
        if c == "seq" and rng.random() < 0.3:
            a.sep = rng.choice([";", ":", "+", "|", "/", "#", "."])
            if et == "double" and a.sep == ".":
                a.sep = ";"
            if et in ("double", "int", "long") and a.sep == "+":
                a.sep = ":"
    n = len(cfg.args)
    force = profile.get("force")
    if force and n >= 2:
        a, b = cfg.args[0], cfg.args[1]
        if force == "differ":
            mem = [x for x in cfg.args[:3] if kind_of(x.slot) == "i"]
            if len(mem) == 3 and rng.random() < 0.4:
                mem = mem[:2]
            rng.shuffle(mem)
            cfg.constraints.append((force, mem, 0))
        elif force == "disjoint":
            a.sort = b.sort = a.unique = b.unique = False
            cfg.constraints.append((force, [a, b], 0))
        elif force in ("all_of", "any_of", "one_of"):
            members = rng.sample(cfg.args, rng.randint(2, min(3, n)))
            if not (force != "all_of" and sum(1 for m in members if m.mandatory) > 1):
                cfg.constraints.append((force, members, 0))
        elif force in ("requires-overlap", "excludes-overlap") and n >= 5:
            # two arguments whose requirement / exclusion lists overlap, the shared entry first: 'a: x;y' and 'b: x;z'
            x, y, z = cfg.args[2], cfg.args[3], cfg.args[4]
            if force == "requires-overlap":
                a.requires += [x, y]
                b.requires += [x, z]
            elif not (x.mandatory or y.mandatory or z.mandatory):
                a.excludes += [x, y]
                b.excludes += [x, z]
        elif force in ("requires", "requires-overlap"):
            if b not in a.requires:
                a.requires.append(b)
        elif force in ("excludes", "excludes-overlap"):
            if not b.mandatory:
                a.excludes.append(b)
        elif force == "mandatory":
            x = rng.choice([y for y in cfg.args if cat_of(y.slot) != "flag"] or [None])
            if x is not None:
                x.mandatory = True
                if is_container(x.slot):
                    x.init = []
                if kind_of(x.slot) in ("oi", "os"):
                    x.init = None
    if n >= 2 and profile.get("constraints", True):
        # argument constraints
        targets = [y for x in cfg.args for y in x.requires + x.excludes]
        for _ in range(rng.choice([0, 0, 1, 1, 2, 3])):
            a, b = rng.sample(cfg.args, 2)
            if targets and rng.random() < 0.5:
                # several constraints on the same target (e.g. required by one argument and excluded by another)
                b = rng.choice(targets)
                if b is a:
                    continue
            targets.append(b)
            if rng.random() < 0.5:
                if b not in a.requires and a not in b.requires and b not in a.excludes:
                    a.requires.append(b)
            else:
                if b not in a.excludes and b not in a.requires and not b.mandatory:
                    a.excludes.append(b)
        # handler constraints
        for _ in range(rng.choice([0, 0, 1, 1, 2])):
            kind = rng.choice(["all_of", "any_of", "one_of", "differ", "disjoint"])
            if kind in ("all_of", "any_of", "one_of"):
                k = rng.randint(2, min(3, n))
                members = rng.sample(cfg.args, k)
                if kind in ("any_of", "one_of") and sum(1 for m in members if m.mandatory) > 1:
                    continue
                cfg.constraints.append((kind, members, 0))
            elif kind == "differ":
                ints = [a for a in cfg.args if kind_of(a.slot) == "i"]
                if len(ints) >= 2:
                    cfg.constraints.append((kind, rng.sample(ints, min(len(ints), rng.choice([2, 2, 3, 4]))), 0))
            else:
                vis = [a for a in cfg.args if kind_of(a.slot) == "vi" and not a.sort and not a.unique]
                if len(vis) >= 2:
                    cfg.constraints.append((kind, rng.sample(vis, 2), 0))


# ---------------------------------------------------------------- values that satisfy the checks

def gen_valid_elem(rng, a, boundary=True):
    """an element text that passes all checks of `a` and converts; None if the generator cannot find one"""
    et = elem_of(a.slot)
    if et in ("mixed", "kv"):
        return None
    elem = is_container(a.slot)
    cands = []
    for c in a.checks:
        if c[0] == "lower":
            cands += [c[1], c[1] + 1, c[1] + 5]
        elif c[0] == "upper":
            cands += [c[1] - 1, c[1] - 2, c[1] - 10] if c[2] != "double" else [c[1] - 0.5, c[1] - 1e-9]
        elif c[0] == "range":
            cands += [c[1], c[2] - 1, (c[1] + c[2]) // 2] if c[3] != "double" else [c[1], c[2] - 0.25, (c[1] + c[2]) / 2]
        elif c[0] == "values":
            cands += list(c[1])
        elif c[0] == "minlen":
            cands += ["a" * c[1], "ab" * c[1]]
        elif c[0] == "maxlen":
            cands += ["b" * c[1], "c"]
        elif c[0] == "pattern":
            cands += {"^[a-z]+$": ["abc", "z"], "^[0-9]+$": ["0", "4711"], "^a.*z$": ["az", "a-z", "abcz"],
                      "[a-z]+": ["abc", "z"], "[0-9]+": ["0", "4711"], "a.*z": ["az", "a-z", "abcz"]}[c[1]]
    if cat_of(a.slot) == "level":
        cands = [x for x in cands if isinstance(x, int)]
    rng.shuffle(cands)
    tries = [str(x) if not isinstance(x, float) else repr(x) for x in cands]
    if not boundary or not tries:
        tries = []
    for _ in range(20):
        tries.append(gen_text(rng, et if et != "pos" else "pos", elem=elem, sep=a.sepchar()))
    for t in tries:
        if elem and (t == "" or a.sepchar() in t):
            continue
        if not argh.check_elem(a, t, et):
            continue
        try:
            argh.conv(et, argh.fmt_elem(a, t))
        except ValueError:
            continue
        if et == "unsigned" and t.startswith("-"):
            continue
        return t
    return None


def gen_use(rng, a, nelems=None):
    c = cat_of(a.slot)
    if c == "flag":
        return Use(a, None)
    if c == "level":
        if rng.random() < 0.6:
            return Use(a, None)
        v = gen_valid_elem(rng, a)
        return Use(a, [v]) if v is not None else Use(a, None)
    if c == "scalar":
        v = gen_valid_elem(rng, a)
        return None if v is None else Use(a, [v])
    n = nelems if nelems is not None else rng.choice([1, 1, 2, 3])
    elems = []
    for _ in range(n):
        v = gen_valid_elem(rng, a)
        if v is None:
            return None
        elems.append(v)
    return Use(a, elems)


def gen_valid_line(rng, cfg, tries=60):
    """an abstract line for which the model says valid; None if none was found"""
    for _ in range(tries):
        used = [a for a in cfg.args if a.mandatory or rng.random() < 0.55]
        used = [a for a in used if not (a.deprecated or a.replaced)]
        # handler constraints: try to satisfy
        for kind, members, _m in cfg.constraints:
            members = [m for m in members]
            if kind == "all_of":
                for m in members:
                    if m not in used:
                        used.append(m)
            elif kind in ("any_of", "one_of"):
                keep = [m for m in members if m.mandatory]
                if not keep:
                    inused = [m for m in members if m in used]
                    keep = [rng.choice(inused)] if inused else ([rng.choice(members)] if kind == "one_of" or rng.random() < 0.5 else [])
                used = [a for a in used if a not in members or a in keep]
                for m in keep:
                    if m not in used:
                        used.append(m)
        # requires closure
        changed = True
        while changed:
            changed = False
            for a in list(used):
                for b in a.requires:
                    if b not in used:
                        used.append(b)
                        changed = True
        rng.shuffle(used)
        # ordering: a before everything it requires; excluded partner before the excluder or dropped
        order = list(used)
        for _k in range(len(order) * len(order) + 1):
            moved = False
            for a in list(order):
                if a not in order:
                    continue
                for b in a.requires:
                    if b in order and order.index(b) < order.index(a):
                        order.remove(b)
                        order.insert(order.index(a) + 1, b)
                        moved = True
                for b in a.excludes:
                    if a in order and b in order and order.index(b) > order.index(a):
                        order.remove(b)
                        if rng.random() < 0.5 and not any(b in x.requires for x in order):
                            order.insert(order.index(a), b)
                        moved = True
            if not moved:
                break
        uses = []
        ok = True
        for a in order:
            card = a.default_card()
            c = cat_of(a.slot)
            reps = 1
            nel = None
            if c in ("scalar", "flag"):
                if card[0] == "exact":
                    reps = card[1]
                elif card[0] == "range":
                    reps = rng.randint(max(1, card[1]), card[2])
                elif card[0] == "max":
                    reps = rng.randint(1, card[1])
                elif card[0] == "none":
                    reps = rng.choice([1, 1, 2, 3])
            elif c == "level":
                reps = rng.choice([1, 1, 2, 3])
            else:
                if card[0] == "exact":
                    total = card[1]
                elif card[0] == "range":
                    total = rng.randint(max(1, card[1]), card[2])
                elif card[0] == "max":
                    total = rng.randint(1, card[1])
                else:
                    total = rng.choice([1, 2, 3, 4])
                reps = rng.randint(1, min(total, 2))
                # split total over reps
                cuts = [total // reps] * reps
                cuts[0] += total - sum(cuts)
                for n in cuts:
                    u = gen_use(rng, a, n)
                    if u is None:
                        ok = False
                        break
                    uses.append(u)
                continue
            if c == "level":
                # increments and assignments are not mixed (documented as refused unless allowed)
                if rng.random() < 0.6 or not a.checks and False:
                    for _r in range(reps):
                        uses.append(Use(a, None))
                else:
                    v = gen_valid_elem(rng, a)
                    uses.append(Use(a, [v]) if v is not None else Use(a, None))
                continue
            for _r in range(reps):
                u = gen_use(rng, a)
                if u is None:
                    ok = False
                    break
                uses.append(u)
            if not ok:
                break
        if not ok:
            continue
        v, _why = argh.valid(cfg, uses)
        if v is True:
            return uses
    return None


def permute_distinct(rng, cfg, uses):
    """a permutation of the uses that keeps (a) the relative order of the uses of one argument and (b) the
    order-sensitive relations (requiring/excluding argument before/after its partner as in the original)"""
    for _ in range(10):
        groups = {}
        order = []
        for u in uses:
            if id(u.arg) not in groups:
                groups[id(u.arg)] = []
                order.append(id(u.arg))
            groups[id(u.arg)].append(u)
        slots = [id(u.arg) for u in uses]
        rng.shuffle(slots)
        res = []
        its = {k: iter(v) for k, v in groups.items()}
        for k in slots:
            res.append(next(its[k]))
        v, _w = argh.valid(cfg, res)
        if v is True:
            return res
    return list(uses)
