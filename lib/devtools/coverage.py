#!/usr/bin/env python3
"""Development aid (not a registered check): which lines of the anchored library files do the argument-handler workloads reach?

  coverage.py build                  gcov build of libcelma + harness/argh_interp.cpp below /tmp/celma-cov
  coverage.py run C01 C02 ...        runs the quick generators of these checks against the gcov interpreter (VERIF_INTERP_EXE)
  coverage.py spec C12 [cases]       gcov build of the C++ harness(es) of a SPEC-driven check, runs every mode on the first
                                     `cases` indices (default 2000; exhaustive modes: a stride over the space is not attempted)
  coverage.py report [file-substr]   per file: lines executed / executable, and the uncovered line ranges

Used to find what a generator never drives (DESIGN.md section 8)."""
import glob
import os
import re
import subprocess
import sys

VERIF = os.path.dirname(os.path.dirname(os.path.dirname(os.path.abspath(__file__))))
sys.path.insert(0, os.path.join(VERIF, "lib"))
import vcommon as vc  # noqa: E402

COV = "/tmp/celma-cov"
FLAGS = ["-std=gnu++17", "-O0", "-g", "--coverage", "-D" + vc.GUARD, "-w"]


def build():
    os.makedirs(COV + "/obj", exist_ok=True)
    inc = vc.include_flags()
    srcs = []
    for g in vc.LIB_GLOBS:
        srcs += sorted(glob.glob(os.path.join(vc.REPO, "src/library", g)))
    jobs, objs = [], []
    for i, s in enumerate(srcs):
        o = os.path.join(COV, "obj", "%03d_%s.o" % (i, os.path.basename(s)[:-4]))
        objs.append(o)
        jobs.append((["g++"] + FLAGS + inc + ["-c", s, "-o", o], s))
    o = os.path.join(COV, "obj", "argh_interp.o")
    objs.append(o)
    jobs.append((["g++"] + FLAGS + inc + ["-c", os.path.join(VERIF, "harness", "argh_interp.cpp"), "-o", o], "interp"))
    vc._compile_many(jobs, "coverage build")
    subprocess.run(["g++", "--coverage"] + objs + ["-Wl,--wrap=exit"] + vc.LINK_LIBS + ["-o", COV + "/argh_interp"], check=True)
    print("built " + COV + "/argh_interp")


def run(props):
    env = dict(os.environ, VERIF_INTERP_EXE=COV + "/argh_interp", VERIF_EVIDENCE_DIR=COV + "/ev", VERIF_REPLAY_DIR=COV + "/replay", VERIF_NO_FUZZ="1")
    for p in props:
        r = subprocess.run([os.path.join(VERIF, "check"), p], env=env, stdout=subprocess.PIPE, stderr=subprocess.STDOUT, text=True)
        print(p, "rc=%d" % r.returncode, [l for l in r.stdout.splitlines() if " seed=" in l][-1:])


def spec(prop, cases):
    sys.path.insert(0, os.path.join(VERIF, "lib", "props"))
    import runner
    mod = __import__(prop.lower())
    sp = mod.SPEC
    os.makedirs(COV + "/obj", exist_ok=True)
    inc = vc.include_flags()
    libobjs = []
    jobs = []
    for i, src in enumerate(sum((sorted(glob.glob(os.path.join(vc.REPO, "src/library", g))) for g in vc.LIB_GLOBS), [])):
        o = os.path.join(COV, "obj", "%03d_%s.o" % (i, os.path.basename(src)[:-4]))
        libobjs.append(o)
        if not os.path.exists(o):
            jobs.append((["g++"] + FLAGS + inc + ["-c", src, "-o", o], src))
    built = {}
    for m in sp["modes"]:
        h = sp["harnesses"][m.get("harness", sp.get("default_harness"))]
        if h["name"] in built:
            continue
        objs = []
        for srcf in h["sources"]:
            o = os.path.join(COV, "obj", "h_%s_%s.o" % (h["name"], os.path.basename(srcf).rsplit(".", 1)[0]))
            objs.append(o)
            jobs.append((["g++"] + FLAGS + [f for f in h.get("cflags", ()) if not f.startswith("-fsanitize")] + inc + ["-pthread", "-c", os.path.join(VERIF, "harness", srcf), "-o", o], srcf))
        built[h["name"]] = (objs, h)
    vc._compile_many(jobs, "coverage build")
    for name, (objs, h) in built.items():
        exe = os.path.join(COV, "h_" + name)
        subprocess.run(["g++", "--coverage", "-pthread"] + objs + (libobjs if h.get("with_lib", True) else []) + [f for f in h.get("ldflags", ()) if not f.startswith("-fsanitize")] + vc.LINK_LIBS + ["-o", exe], check=True)
    for m in sp["modes"]:
        h = sp["harnesses"][m.get("harness", sp.get("default_harness"))]
        exe = os.path.join(COV, "h_" + h["name"])
        total = int(runner.tier_value(m["cases"], "quick"))
        n = min(cases, total)
        argv = [exe] + runner.mode_args(m, "quick", 1) + ["--start", "0", "--count", str(n)]
        env = dict(os.environ)
        env.update(m.get("env") or {})
        r = subprocess.run(argv, stdout=subprocess.PIPE, stderr=subprocess.STDOUT, text=True, errors="replace", env=env, timeout=3600)
        tail = [l for l in r.stdout.splitlines() if l.startswith("DONE") or l.startswith("VIOL")][:3]
        print(prop, m["name"], "rc=%d" % r.returncode, "cases %d of %d" % (n, total), tail)


def report(sub):
    os.chdir(COV + "/obj")
    gcdas = glob.glob("*.gcda")
    subprocess.run(["gcov", "-p", "-l"] + gcdas, stdout=subprocess.DEVNULL, stderr=subprocess.DEVNULL)
    # merge the per-object .gcov files by source file
    lines = {}
    for f in glob.glob("*.gcov"):
        src = None
        for l in open(f, errors="replace"):
            m = re.match(r"\s*([^:]+):\s*(\d+):(.*)$", l)
            if not m:
                continue
            cnt, no, text = m.group(1).strip(), int(m.group(2)), m.group(3)
            if no == 0:
                if text.startswith("Source:"):
                    src = os.path.normpath(text[7:])
                continue
            if src is None or "/src/" not in src or cnt == "-":
                continue
            d = lines.setdefault(src, {})
            hit = 0 if cnt.startswith("#") or cnt.startswith("=") else 1
            d[no] = max(d.get(no, 0), hit)
    for src in sorted(lines):
        if sub and sub not in src:
            continue
        d = lines[src]
        tot, hit = len(d), sum(d.values())
        if not sub and os.environ.get("COV_ALL") is None and ("prog_args" not in src and "tokenizer" not in src and "text_block" not in src):
            continue
        miss = sorted(n for n, h in d.items() if not h)
        rng, start, prev = [], None, None
        for n in miss:
            if start is None:
                start = prev = n
            elif n <= prev + 3:
                prev = n
            else:
                rng.append((start, prev))
                start = prev = n
        if start is not None:
            rng.append((start, prev))
        print("%5d/%5d %3d%%  %s" % (hit, tot, 100 * hit // max(1, tot), src.split("/src/", 1)[1]))
        if sub:
            print("      uncovered: " + " ".join("%d-%d" % r if r[0] != r[1] else str(r[0]) for r in rng))
    for f in glob.glob("*.gcov"):
        os.unlink(f)


if __name__ == "__main__":
    cmd = sys.argv[1] if len(sys.argv) > 1 else "report"
    if cmd == "build":
        build()
    elif cmd == "run":
        run(sys.argv[2:])
    elif cmd == "spec":
        spec(sys.argv[2], int(sys.argv[3]) if len(sys.argv) > 3 else 2000)
    else:
        report(sys.argv[2] if len(sys.argv) > 2 else None)
