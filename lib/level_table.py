#!/usr/bin/env python3
"""prints the table of DESIGN.md section 4 from the evidence files (quick: evidence/, thorough: $1 or /tmp/ev-thorough)"""
import json
import os
import sys

VERIF = os.path.dirname(os.path.dirname(os.path.abspath(__file__)))
tdir = sys.argv[1] if len(sys.argv) > 1 else "/tmp/ev-thorough"
man = json.load(open(os.path.join(VERIF, "MANIFEST.json")))
print("| property | level | quick: evaluations / distinct non-trivial / wall | thorough: evaluations / distinct non-trivial / wall |")
print("|---|---|---|---|")
for c in man["checks"]:
    pid = c["property_id"]
    row = [pid, c["level_claimed"]["category"]]
    for d in (os.path.join(VERIF, "evidence"), tdir):
        try:
            e = json.load(open(os.path.join(d, pid + ".json")))
            row.append("%s / %s / %.0f s%s" % (format(e["coverage"]["evaluations"], ","), format(e["coverage"]["distinct_nontrivial"], ","), e["wall_s"],
                                              " (known finding hit)" if e.get("known_findings_hit") else ""))
        except (OSError, ValueError, KeyError):
            row.append("not run yet")
    print("| " + " | ".join(row) + " |")
