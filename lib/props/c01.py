"""C01 - command-line values reach their typed destinations, whatever the spelling."""
import argh
import argh_driver as drv
import argh_gen as gen
from argh import HF

PROP = "C01"
RULE = ("case = one generated configuration (2-8 arguments over flag/int/long/unsigned/int64/double/string/optional/"
        "vector/list/deque destinations, short, long or both keys from a pool with prefix chains, random initial values, "
        "abbreviations on or off) + one VALID abstract command line (ordered uses with intended values, values at type "
        "limits) rendered in up to 8 (quick) / 24 (thorough) legal spellings: canonical, all-short, all-long, all '=', "
        "all glued, maximal flag grouping, unambiguous abbreviations, random mixes, each with a random permutation of the "
        "uses of distinct arguments; a quarter of the cases get a tail '<multi-value list as separate words> <flag> <free value of the "
        "positional argument>' with all key spellings of list and flag. scenario = one (configuration, argv) execution on the real handler (ASan+UBSan build). "
        "Oracle: every scenario is accepted, every destination equals the python model's expected value (doubles within 1 ulp), "
        "unused destinations keep their initial value, all spellings agree. non-trivial = at least 2 uses and argv differs from "
        "the canonical spelling; distinct = hash of (configuration, argv).")
ASSUMPTIONS = ["python model lib/argh.py (expected values from the abstract line, not from argv)",
               "values starting with '-' or equal to '(', ')', '!' only in '=' / glued spellings; long keys have >= 2 characters"]

PROFILE = dict(kinds=gen.C01_KINDS, nargs=(2, 8), rules=False,
               flags=[0, 0, 0, HF["noAbbr"], HF["helpShort"] | HF["helpLong"], HF["helpLong"] | HF["helpArg"],
                      HF["endValues"] | HF["listArgVar"] | HF["verbose"] * 0])

STYLES = [dict(key="long", val="word", group="never"),     # canonical
          dict(key="short", val="word"), dict(key="long", val="eq"), dict(key="short", val="glue", group="max"),
          dict(key="abbr", val="eq"), dict(key="abbr", val="word"), dict(group="max"), dict()]


def cases(tier):
    return 12000 if tier == "quick" else 150000


def gen_case(seed, idx, tier):
    rng = drv.case_rng(seed, PROP, idx)
    c = drv.Case(idx)
    cfg = gen.gen_config(rng, PROFILE)
    uses = gen.gen_valid_line(rng, cfg)
    if uses is None:
        c.skip = "no-valid-line"
        return c
    nsp = 8 if tier == "quick" else 24
    try:
        exp = argh.expected(cfg, uses)
    except argh.ModelAbstain:
        c.skip = "model-abstains"
        return c
    # optional tail: a multi-value list spelled as separate words (first value attached, glued or as next word), ended by a
    # value-less flag (any spelling), followed by the free value of the positional argument
    tail_variants = None
    if rng.random() < 0.25 and not any(a.keyspec() == "-" or a.short in ("M", "Q") or (a.long or "").startswith("zz-") for a in cfg.args):
        mv = argh.Arg("vi9", "M", "zz-multi-values")
        mv.multi, mv.init = True, []
        qf = argh.Arg("b9", "Q", "zz-quiet-flag")
        qf.init = "0"
        pa = argh.Arg("s9", None, None, spec="-")
        pa.init = "none"
        cfg.args += [mv, qf, pa]
        vals = [str(rng.randint(0, 99)) for _ in range(rng.randint(1, 4))]
        free = rng.choice(["out.txt", "7", "x", "12"])
        abbr = not (cfg.flags & argh.HF["noAbbr"])
        keys = [["-M", vals[0]], ["-M" + vals[0]], ["--zz-multi-values", vals[0]], ["--zz-multi-values=" + vals[0]]] + ([["--zz-m", vals[0]], ["--zz-mul=" + vals[0]]] if abbr else [])
        flags = ["-Q", "--zz-quiet-flag"] + (["--zz-q", "--zz-quiet"] if abbr else [])
        tail_variants = [k + vals[1:] + [f, free] for k in keys for f in flags]
        if len(vals) >= 3:
            tail_variants.append(["-M", vals[0] + "," + vals[1]] + vals[2:] + ["-Q", free])
        exp.update({"vi9": [int(v) for v in vals], "b9": True, "s9": free})
    c.meta.update(cfg=cfg, uses=uses, argvs=[], exp=exp, tail=tail_variants is not None)
    seen = set()
    for k in range(nsp):
        style = STYLES[k] if k < len(STYLES) else {}
        order = uses if k == 0 else gen.permute_distinct(rng, cfg, uses)
        if style.get("group") == "max":
            # flags with a short key first (one behind the other, so that they can share a dash), then the rest
            fl = [u for u in order if u.elems is None and u.arg.short and u.arg.value_mode() == "none"]
            if len(fl) >= 2:
                order = fl + [u for u in order if u not in fl]
        try:
            words, st = argh.spell_line(cfg, order, rng, style)
        except argh.ModelAbstain:
            continue
        if tail_variants:
            words = words + tail_variants[(k + idx) % len(tail_variants)]
        key = "\x00".join(words)
        if key in seen:
            continue
        seen.add(key)
        c.meta["argvs"].append((words, st))
        c.add("c01", lambda sid, w=words: argh.scenario_text(sid, "spelling", cfg, w))
    return c


def judge(c, results, rep):
    cfg, uses, exp = c.meta["cfg"], c.meta["uses"], c.meta["exp"]
    canon = None
    for (sid, text), (words, st) in zip(c.scenarios, c.meta["argvs"]):
        r = results[sid]
        for k, v in st.items():
            rep.stat("spell." + k, v)
        rep.stat("uses", len(uses))
        if c.meta.get("tail"):
            rep.stat("spell.tail_multi_values_flag_positional")
        if canon is None:
            canon = words
        if len(uses) >= 2 and words != canon:
            rep.distinct(text.split("\n", 1)[1])
        if r.status != "ok":
            rep.viol("rejected|%s" % (r.etype or r.status), "valid line rejected: %s: %s | uses=%r argv=%r" % (r.etype, r.ewhat, uses, words), [text])
            continue
        bad = []
        for a in cfg.args:
            got = argh.parse_dump(a.slot, r.slots.get(a.slot, "?"))
            if not argh.values_equal(a.slot, got, exp[a.slot]):
                bad.append((a, got))
        for a, got in bad:
            usedhere = any(u.arg is a for u in uses)
            rep.viol("%s|%s" % ("wrong-value" if usedhere else "unused-changed", argh.cat_of(a.slot)),
                     "slot %s (%s) = %r, expected %r | uses=%r argv=%r" % (a.slot, a.keyspec(), got, exp[a.slot], uses, words), [text])
        if not bad:
            rep.stat("accepted_with_expected_values")
    if c.scenarios:
        rep.sample("argv=%r expected=%r" % (c.meta["argvs"][-1][0], {k: v for k, v in exp.items()}))


def run(tier, seed, modes=None):
    import sys
    return drv.run(sys.modules[__name__], tier, seed)


def replay(path):
    import sys
    return drv.replay(sys.modules[__name__], path)
