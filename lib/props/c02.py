"""C02 - no command line that breaks a declared rule is silently accepted."""
import copy

import argh
import argh_driver as drv
import argh_gen as gen
from argh import HF, Use, cat_of, elem_of, is_container

import c03

PROP = "C02"
RULE = ("case = one generated rule-rich configuration (as C03) + one valid abstract line + ONE rule-breaking mutation: "
        "drop a mandatory argument, repeat a use beyond the cardinality / give too few values for an exact or range "
        "cardinality, insert an unknown short/long key, an ambiguous abbreviation or (abbreviations off) any abbreviation, "
        "replace a value by one that does not convert (non-numeric, out of range of the type, empty) or fails a check "
        "(lower-1, ==upper, outside range, not in list, too short/long, pattern mismatch), remove the value of a "
        "required-value argument (end of line or followed by a key), increment a level counter exactly up to its upper limit, use an excluded argument after the excluding one, "
        "drop the partner of a requires constraint, break all_of (some but not all), any_of/one_of (two members), one_of "
        "(none), differ (equal values), disjoint (common element). The mutated line is confirmed invalid by the model "
        "(or invalid by construction for key/missing-value mutations) and run in up to 5 spellings (long, short+glued+"
        "grouped, abbreviated+'=', random x2). Oracle: evaluation must end with an exception derived from std::exception. "
        "The evidence holds the rule x key-spelling matrix. non-trivial = every mutated line; distinct = hash of "
        "(configuration, argv).")
ASSUMPTIONS = c03.ASSUMPTIONS + ["the model's notion of 'breaks a declared rule' (lib/argh.py valid())"]

PROFILE = dict(c03.PROFILE)
STYLES = [dict(key="long", val="word", group="never"), dict(key="short", val="glue", group="max"), dict(key="abbr", val="eq"), dict(), dict()]
MUTATIONS = ["drop-mandatory", "cardinality", "unknown-short", "unknown-long", "ambiguous-abbr", "bad-value", "check-fail",
             "missing-value", "excluded", "missing-required", "all_of", "two-of", "one_of-none", "differ", "disjoint", "level-limit", "tuple-short", "cardinality-free-values"]


def cases(tier):
    return 14000 if tier == "quick" else 200000


def clone_uses(uses):
    return [Use(u.arg, None if u.elems is None else list(u.elems)) for u in uses]


def bad_text(rng, a):
    et = elem_of(a.slot)
    if et in ("int", "long", "unsigned", "pos"):
        c = ["abc", "12x", "1.5", "0x10", "1e3", "--", "9" * 25]
        if not is_container(a.slot) and cat_of(a.slot) != "level":
            c.append("")
        if et == "int":
            c += ["2147483648", "-2147483649", "99999999999"]
        if et == "unsigned":
            c += ["4294967296"]
        if et == "long":
            c += ["9223372036854775808", "-9223372036854775809"]
        return rng.choice(c)
    if et == "double":
        return rng.choice(["abc", "1.5x", "1e", "--"])
    return None


def failing_text(rng, a):
    """an element text that converts but violates at least one check"""
    et = elem_of(a.slot)
    cands = []
    for c in a.checks:
        if c[0] == "lower":
            cands.append(c[1] - 1 if c[2] != "double" else c[1] - 0.5)
        elif c[0] == "upper":
            cands += [c[1], c[1] + 1]
        elif c[0] == "range":
            cands += [c[2], c[1] - 1] if c[3] != "double" else [c[2], c[1] - 0.25]
        elif c[0] == "values":
            cands += ["purple", c[1][0] + "x", c[1][0].swapcase()]
        elif c[0] == "minlen":
            cands.append("q" * (c[1] - 1))
        elif c[0] == "maxlen":
            cands.append("q" * (c[1] + 1))
        elif c[0] == "pattern":
            cands += {"^[a-z]+$": ["ab1", "A"], "^[0-9]+$": ["12a", "x"], "^a.*z$": ["abc", "za"],
                      # not anchored: regex_match() still wants the whole value, a search would accept these
                      "[a-z]+": ["ab1", "1ab", "A"], "[0-9]+": ["12a", "a12", "x"], "a.*z": ["xazx", "aza", "abc"]}[c[1]]
    rng.shuffle(cands)
    for x in cands:
        t = repr(x) if isinstance(x, float) else str(x)
        if is_container(a.slot) and (t == "" or a.sepchar() in t):
            continue
        if et == "unsigned" and t.startswith("-"):
            continue
        if cat_of(a.slot) == "level" and t == "":
            continue
        try:
            argh.conv(et, argh.fmt_elem(a, t))
        except ValueError:
            continue
        if not argh.check_elem(a, t, et):
            return t
    return None


def mutate(rng, cfg, uses, kind):
    """-> (mutated uses, extra words to insert (position, words), reason) or None when not applicable"""
    m = clone_uses(uses)
    used_args = []
    for u in m:
        if u.arg not in used_args:
            used_args.append(u.arg)
    if kind == "drop-mandatory":
        c = [a for a in used_args if a.mandatory]
        if not c:
            return None
        a = rng.choice(c)
        return [u for u in m if u.arg is not a], None
    if kind == "cardinality":
        c = []
        for a in used_args:
            card = a.default_card()
            n = sum((len(u.elems) if (u.elems and is_container(a.slot)) else 1) for u in m if u.arg is a)
            if card[0] in ("max", "exact") and n == card[1]:
                c.append((a, "more"))
            if card[0] == "range" and n == card[2]:
                c.append((a, "more"))
            if card[0] == "exact" and n > 1:
                c.append((a, "less"))
            if card[0] == "range" and n == card[1] and n > 1:
                c.append((a, "less"))
        if not c:
            return None
        a, how = rng.choice(c)
        idxs = [i for i, u in enumerate(m) if u.arg is a]
        if how == "more":
            i = rng.choice(idxs)
            u = m[i]
            if u.elems is not None and is_container(a.slot) and rng.random() < 0.5:
                u.elems.append(u.elems[0])
            else:
                m.insert(i + 1, Use(a, None if u.elems is None else list(u.elems[:1])))
        else:
            i = idxs[-1]
            u = m[i]
            if u.elems is not None and is_container(a.slot) and len(u.elems) > 1:
                u.elems.pop()
            else:
                del m[i]
        return m, None
    if kind in ("unknown-short", "unknown-long", "ambiguous-abbr"):
        if kind == "unknown-short":
            w = "-" + rng.choice("QR0")
            if rng.random() < 0.3 and False:
                w += "1"
        elif kind == "unknown-long":
            w = rng.choice(["--zzz", "--unknown=1", "--zz-top", "--no-such-arg"])
            longs = cfg.all_longs()
            if longs and rng.random() < 0.6:
                # an unknown key that EXTENDS a declared long key (--countdown for --count) is unknown, not an abbreviation
                base = rng.choice(longs)
                ext = base + rng.choice(["x", "s", "-extra", "down", "2"])
                if ext not in longs and not any(l.startswith(ext) for l in longs):
                    w = "--" + ext + rng.choice(["", "=1"])
        else:
            longs = cfg.all_longs()
            cands = set()
            for l in longs:
                for n in range(2, len(l)):
                    p = l[:n]
                    if p in longs:
                        continue
                    k = sum(1 for x in longs if x.startswith(p))
                    if (cfg.abbr_enabled() and k >= 2) or (not cfg.abbr_enabled() and k >= 1):
                        cands.add(p)
            if not cands:
                return None
            w = "--" + rng.choice(sorted(cands))
            if rng.random() < 0.5:
                w += "=1"
        return m, (rng.randint(0, len(m)), [w])
    if kind in ("bad-value", "check-fail"):
        c = [i for i, u in enumerate(m) if u.elems]
        rng.shuffle(c)
        for i in c:
            a = m[i].arg
            if kind == "check-fail" and not a.checks:
                continue
            t = bad_text(rng, a) if kind == "bad-value" else failing_text(rng, a)
            if t is None:
                continue
            if is_container(a.slot) and (t == "" or a.sepchar() in t):
                continue
            m[i].elems[rng.randrange(len(m[i].elems))] = t
            return m, None
        return None
    if kind == "cardinality-free-values":
        # a multi-value container whose cardinality is used up gets one more value as a separate word behind its list
        c = []
        for i, u in enumerate(m):
            a = u.arg
            if not (u.elems and is_container(a.slot) and argh.cat_of(a.slot) == "seq"):
                continue
            card = a.default_card()
            n = sum(len(x.elems) for x in m if x.arg is a and x.elems)
            if (card[0] in ("max", "exact") and n == card[1]) or (card[0] == "range" and n == card[2]):
                c.append(i)
        if not c:
            return None
        i = rng.choice(c)
        a = m[i].arg
        extra = m[i].elems[-1]
        if extra.startswith("-") or extra in argh.CTRL or extra == "" or a.sepchar() in extra:
            return None
        a.multi = True
        return m, (i + 1, [extra] if rng.random() < 0.7 else [extra, extra])
    if kind == "tuple-short":
        # a tuple destination (three elements) that gets one or two values only: used, but not all expected values
        if any(x.short == "T" or (x.long or "").startswith("zz-tr") for x in cfg.args):
            return None
        tp = argh.Arg("tu9", "T", "zz-triple")
        tp.multi = rng.random() < 0.5
        cfg.args.append(tp)
        v = [str(rng.randint(0, 99)), rng.choice(["two", "x", "Ab"])]
        k = lambda: rng.choice(["-T", "--zz-triple"])
        words = rng.choice([[k(), v[0]], [k(), v[0] + "," + v[1]], [k(), v[0], k(), v[1]]] + ([[k(), v[0], v[1]]] if tp.multi else []))
        return m, (len(m), words)
    if kind == "level-limit":
        # a level counter with an upper limit, incremented (value-less uses) exactly up to the limit: the last increment
        # produces a value that fails the check
        lv = [a for a in cfg.args if argh.cat_of(a.slot) == "level" and any(ch[0] in ("upper", "range") for ch in a.checks)
              and not (a.deprecated or a.replaced)]
        if lv:
            a = rng.choice(lv)
        else:
            if any(x.short == "V" or x.long == "zz-verbosity" for x in cfg.args):
                return None
            a = argh.Arg("lc9", "V", "zz-verbosity")
            a.init = "0"
            hi = rng.choice([1, 2, 3, 5])
            a.checks.append(("upper", hi, argh.elem_of(a.slot)) if rng.random() < 0.6 else ("range", 0, hi, argh.elem_of(a.slot)))
            cfg.args.append(a)
        ch = [x for x in a.checks if x[0] in ("upper", "range")][0]
        hi = ch[1] if ch[0] == "upper" else ch[2]
        try:
            start = int(a.init) if a.init not in (None, "") else 0
        except (TypeError, ValueError):
            start = 0
        if hi - start < 1 or hi - start > 12:
            return None
        m = [u for u in m if u.arg is not a]
        for _ in range(hi - start):
            m.insert(rng.randint(0, len(m)), Use(a, None))
        return m, None
    if kind == "missing-value":
        c = [i for i, u in enumerate(m) if u.elems is not None and u.arg.value_mode() == "req"]
        if not c:
            return None
        i = rng.choice(c)
        m[i] = Use(m[i].arg, None)
        return m, None
    if kind == "excluded":
        c = [(a, b) for a in used_args for b in a.excludes]
        if not c:
            return None
        a, b = rng.choice(c)
        mine = [x for x in m if x.arg is b]
        if mine and rng.random() < 0.7:
            # the excluded argument is used before the excluding one (legal): move its uses behind it
            m = [x for x in m if x.arg is not b]
            last = max(i for i, x in enumerate(m) if x.arg is a)
            pos = rng.randint(last + 1, len(m))
            m[pos:pos] = mine
            return m, None
        u = gen.gen_use(rng, b)
        if u is None:
            return None
        last = max(i for i, x in enumerate(m) if x.arg is a)
        m.insert(rng.randint(last + 1, len(m)), u)
        return m, None
    if kind == "missing-required":
        c = [(a, b) for a in used_args for b in a.requires]
        if not c:
            return None
        a, b = rng.choice(c)
        return [u for u in m if u.arg is not b], None
    if kind in ("all_of", "two-of", "one_of-none", "differ", "disjoint"):
        want = {"all_of": ["all_of"], "two-of": ["any_of", "one_of"], "one_of-none": ["one_of"], "differ": ["differ"], "disjoint": ["disjoint"]}[kind]
        c = [(k, mem) for k, mem, _g in cfg.constraints if k in want]
        if not c:
            return None
        k, mem = rng.choice(c)
        if kind == "all_of":
            drop = rng.sample(mem, rng.randint(1, len(mem) - 1))
            return [u for u in m if u.arg not in drop], None
        if kind == "two-of":
            other = [x for x in mem if x not in used_args]
            if not other:
                return None
            u = gen.gen_use(rng, rng.choice(other))
            if u is None:
                return None
            m.insert(rng.randint(0, len(m)), u)
            return m, None
        if kind == "one_of-none":
            return [u for u in m if u.arg not in mem], None
        if kind == "differ":
            # two members get the same value; with 3+ members the others may be used or not (a member listed
            # between the two may stay unused)
            a, b = rng.sample(mem, 2)
            ua = [u for u in m if u.arg is a and u.elems]
            if not ua:
                ua = [gen.gen_use(rng, a)]
                if ua[0] is None:
                    return None
                m.append(ua[0])
            m2 = [u for u in m if u.arg is not b]
            m2.append(Use(b, [ua[-1].elems[0]]))
            for x in mem:
                if x is not a and x is not b and not x.mandatory and rng.random() < 0.6:
                    m2 = [u for u in m2 if u.arg is not x]
            return m2, None
        if kind == "disjoint":
            a, b = mem
            ua = [u for u in m if u.arg is a and u.elems]
            if not ua:
                return None
            m.append(Use(b, [ua[0].elems[0]]))
            return m, None
    return None


def gen_case(seed, idx, tier):
    rng = drv.case_rng(seed, PROP, idx)
    c = drv.Case(idx)
    target = MUTATIONS[idx % len(MUTATIONS)]
    prof = dict(PROFILE)
    force = {"differ": "differ", "disjoint": "disjoint", "all_of": "all_of", "two-of": rng.choice(["any_of", "one_of"]),
             "one_of-none": "one_of", "excluded": "excludes", "missing-required": "requires", "drop-mandatory": "mandatory"}.get(target)
    if force and rng.random() < 0.8:
        prof["force"] = force
        if force in ("requires", "excludes") and rng.random() < 0.4:
            prof["force"] = force + "-overlap"
            prof["nargs"] = (5, 8)
    cfg = gen.gen_config(rng, prof)
    uses = gen.gen_valid_line(rng, cfg)
    if uses is None:
        c.skip = "no-valid-line"
        return c
    kinds = list(MUTATIONS)
    rng.shuffle(kinds)
    # prefer the mutation whose turn it is (so that every kind is exercised), fall back to any applicable one
    kinds.insert(0, target)
    mut = None
    for k in kinds:
        r = mutate(rng, cfg, uses, k)
        if r is None:
            continue
        m, ins = r
        if ins is None:
            v, why = argh.valid(cfg, m)
            if v is not False:
                continue
            if k == "missing-value" and why != "missing-value":
                continue
        else:
            why = k
        mut = (k, m, ins, why)
        break
    if mut is None:
        c.skip = "no-mutation-applicable"
        return c
    k, m, ins, why = mut
    c.meta.update(cfg=cfg, kind=k, why=why, uses=m, argvs=[])
    seen = set()
    for s in range(5 if tier == "quick" else 10):
        style = dict(STYLES[s]) if s < len(STYLES) else {}
        try:
            if ins is None:
                words, st = argh.spell_line(cfg, m, rng, style)
            else:
                pos, extra = ins
                w1, st = argh.spell_line(cfg, m[:pos], rng, style)
                w2, st2 = argh.spell_line(cfg, m[pos:], rng, style)
                words = w1 + extra + w2
        except argh.ModelAbstain:
            continue
        key = "\x00".join(words)
        if key in seen:
            continue
        seen.add(key)
        c.meta["argvs"].append((words, style.get("key", "mixed")))
        c.add("c02", lambda sid, w=words: argh.scenario_text(sid, "rule-break", cfg, w))
    return c


def judge(c, results, rep):
    kind, why = c.meta["kind"], c.meta["why"]
    for (sid, text), (words, keyform) in zip(c.scenarios, c.meta["argvs"]):
        r = results[sid]
        rep.stat("matrix.%s.%s" % (kind, keyform))
        rep.distinct(text.split("\n", 1)[1])
        if r.status == "throw":
            rep.stat("rejected_as_required")
        elif r.status == "ok":
            rep.viol("accepted|%s|%s" % (kind, why), "rule-breaking line accepted (mutation %s, model reason %s, spelling %s) | uses=%r argv=%r" % (
                kind, why, keyform, c.meta["uses"], words), [text])
        else:
            rep.viol("outcome|%s|%s" % (kind, r.status), "outcome %s %s for argv=%r" % (r.status, r.etype, words), [text])
    if c.scenarios:
        rep.sample("mutation=%s reason=%s argv=%r" % (kind, why, c.meta["argvs"][-1][0]))


def finalize(chk):
    # every mutation kind must have been exercised
    missing = [k for k in MUTATIONS if not any(n.startswith("matrix.%s." % k) for n in chk.counters)]
    if missing:
        chk.infra.append("mutation kinds never exercised: %s" % missing)


def run(tier, seed, modes=None):
    import sys
    return drv.run(sys.modules[__name__], tier, seed)


def replay(path):
    import sys
    return drv.replay(sys.modules[__name__], path)
