"""C03 - every command line that obeys the declared rules is accepted."""
import argh
import argh_driver as drv
import argh_gen as gen
from argh import HF

PROP = "C03"
RULE = ("case = one generated rule-rich configuration (2-8 arguments; mandatory flags, lower/upper/range/value-list/"
        "min-max-length/pattern checks, upper/lower-case formats, max/exact/range cardinalities, non-default list "
        "separators, requires/excludes argument constraints, all_of/any_of/one_of/differ/disjoint handler constraints, "
        "long keys from prefix chains in random definition order, level counters) + one abstract line the python model "
        "judges VALID in the documented order-sensitive sense (requiring/excluding argument before its partner; values on "
        "the inclusive lower / just below the exclusive upper bound) rendered in up to 6 (quick) / 16 (thorough) spellings "
        "(short, long, abbreviated, '=', glued, grouped, permuted where the rules allow); optional tails: a multi-value list as "
        "separate words ended by a flag and followed by the positional value; a tuple whose three values come in one list, "
        "in repeated uses or as separate words; optional head: an argument file that gives one scalar argument of the line, which "
        "argv then gives again (file values do not count for the cardinality). Oracle: accepted, and the "
        "destinations equal the model (a wrong value is reported under the C01-style key). non-trivial = line with >= 2 "
        "uses in a configuration with >= 1 rule; distinct = hash of (configuration, argv).")
ASSUMPTIONS = ["python model lib/argh.py: valid() and expected()", "all_of with no member used, and repeated use of one any_of/one_of member, are never generated (documentation ambiguous)",
               "a mandatory container starts empty (non-empty content counts as 'has value' in the library)"]

PROFILE = dict(kinds=gen.RULE_KINDS, nargs=(2, 8), rules=True,
               flags=[0, 0, HF["noAbbr"], HF["helpShort"] | HF["helpLong"], HF["endValues"], HF["verbose"] | HF["usageCont"]])

STYLES = [dict(key="long", val="word", group="never"), dict(key="short", val="glue", group="max"), dict(key="abbr", val="eq"),
          dict(key="long", val="eq"), dict(key="short", val="word"), dict()]


def cases(tier):
    return 12000 if tier == "quick" else 150000


def gen_case(seed, idx, tier):
    rng = drv.case_rng(seed, PROP, idx)
    c = drv.Case(idx)
    cfg = gen.gen_config(rng, PROFILE)
    uses = gen.gen_valid_line(rng, cfg)
    if uses is None:
        c.skip = "no-valid-line"
        return c
    nsp = 6 if tier == "quick" else 16
    # clear-before-assign + unique: a first value equal to one of the defaults is no duplicate (the defaults are gone by then)
    for a in cfg.args:
        if a.clear and a.unique and a.init and rng.random() < 0.6:
            firsts = [u for u in uses if u.arg is a and u.elems]
            cand = a.init[rng.randrange(len(a.init))]
            if firsts and cand not in firsts[0].elems and argh.check_elem(a, cand, argh.elem_of(a.slot)):
                old0 = firsts[0].elems[0]
                firsts[0].elems[0] = cand
                if argh.valid(cfg, uses)[0] is not True:
                    firsts[0].elems[0] = old0
    try:
        exp = argh.expected(cfg, uses)
    except argh.ModelAbstain:
        c.skip = "model-abstains"
        return c
    # optional tail: a multi-value list given as separate words, ended by a value-less flag, followed by a free value for
    # the positional argument - all legal, all documented (setTakesMultiValue / "-" key)
    tail = []
    if rng.random() < 0.25 and not (cfg.flags & argh.HF["noAbbr"] and False):
        mv = argh.Arg("vi9", None, "zz-multi-values")
        mv.multi, mv.init = True, []
        qf = argh.Arg("b9", None, "zz-quiet-flag")
        qf.init = "0"
        pa = argh.Arg("s9", None, None, spec="-")
        pa.init = "none"
        cfg.args += [mv, qf, pa]
        vals = [str(rng.randint(0, 99)) for _ in range(rng.randint(1, 3))]
        free = rng.choice(["out.txt", "7", "x"])
        tail = ["--zz-multi-values"] + vals + ["--zz-quiet-flag", free]
        exp.update({"vi9": [int(v) for v in vals], "b9": True, "s9": free})
    # optional second tail: a tuple destination whose three values arrive in one list, in repeated uses or (multi-value) as
    # separate words - each a legal way to give exactly three values
    ttails = None
    if rng.random() < 0.2 and not any(a.short == "T" or (a.long or "").startswith("zz-tr") for a in cfg.args):
        tp = argh.Arg("tu9", "T", "zz-triple")
        tp.multi = rng.random() < 0.5
        cfg.args.append(tp)
        v = [str(rng.randint(0, 99)), rng.choice(["two", "x", "Ab"]), rng.choice(["3.5", "0.25", "7"])]
        k = lambda: rng.choice(["-T", "--zz-triple"])
        ttails = [[k(), ",".join(v)], [k(), v[0], k(), v[1], k(), v[2]], [k(), v[0] + "," + v[1], k(), v[2]], [k(), v[0], k(), v[1] + "," + v[2]],
                  ["--zz-triple=" + v[0], "-T" + v[1], "-T", v[2]]]
        if tp.multi:
            ttails += [[k()] + v, [k(), v[0] + "," + v[1], v[2]], [k(), v[0], v[1] + "," + v[2]], ["--zz-triple=" + v[0], v[1], v[2]]]
        exp["tu9"] = (int(v[0]), v[1], float(v[2]))
    # optional head: an argument file (named with --arg-file at the start of argv) that already gives one of the scalar
    # arguments of the line - with the value the command line gives it later. Values from a file do not count for the
    # cardinality, the later use on argv overrides them: still a command line that obeys every rule
    head = []
    # (not an argument that excludes others: used earlier than in the line it would exclude what the line uses in between)
    scal = [u for u in uses if argh.cat_of(u.arg.slot) == "scalar" and u.elems and not u.arg.excludes and u.arg.default_card()[0] == "max" and u.arg.default_card()[1] == 1
            and not u.elems[0].startswith("-") and u.elems[0] not in argh.CTRL and u.elems[0].strip() == u.elems[0] and u.elems[0] != ""
            and not any(ch in u.elems[0] for ch in "'\"\\ \t\n#")]
    # (nor a member of an any_of / one_of constraint: its repeated use is not judged, see assumptions)
    inxor = set(id(m) for k, mem, _g in cfg.constraints if k in ("any_of", "one_of") for m in mem)
    scal = [u for u in scal if id(u.arg) not in inxor]
    if scal and rng.random() < 0.2 and not any((a.long or "").startswith("arg") for a in cfg.args):
        u = rng.choice(scal)
        try:
            fw, _st = argh.spell_line(cfg, [u], rng, dict(key="long" if u.arg.long else "short", val="word"), group_flags=False)
        except argh.ModelAbstain:
            fw = None
        if fw:
            cfg.arg_file_key = "arg-file"
            cfg.files = [("c03/args.txt", "# from the file\n" + " ".join(fw) + "\n")]
            head = [rng.choice(["--arg-file=@HOME@/c03/args.txt", "--arg-file"])]
            if head[0] == "--arg-file":
                head.append("@HOME@/c03/args.txt")
    c.meta.update(cfg=cfg, uses=uses, argvs=[], exp=exp, tail=bool(tail), ttail=ttails is not None, head=bool(head))
    seen = set()
    for k in range(nsp):
        style = STYLES[k] if k < len(STYLES) else {}
        order = uses if k == 0 else gen.permute_distinct(rng, cfg, uses)
        try:
            words, st = argh.spell_line(cfg, order, rng, style)
        except argh.ModelAbstain:
            continue
        if head:
            words = head + words
        if ttails:
            words = words + ttails[(k + idx) % len(ttails)]
        words = words + tail
        key = "\x00".join(words)
        if key in seen:
            continue
        seen.add(key)
        c.meta["argvs"].append((words, st, order))
        c.add("c03", lambda sid, w=words: argh.scenario_text(sid, "valid-line", cfg, w))
    return c


def rule_tags(cfg):
    t = set()
    for a in cfg.args:
        if a.mandatory:
            t.add("mandatory")
        for ck in a.checks:
            t.add("check-" + ck[0])
        for f in a.formats:
            t.add("format")
        if a.card is not None:
            t.add("card-" + a.card[0])
        if a.requires:
            t.add("requires")
        if a.excludes:
            t.add("excludes")
        if a.sep:
            t.add("list-sep")
    for k, _m, _g in cfg.constraints:
        t.add(k)
    return t


def judge(c, results, rep):
    cfg, uses, exp = c.meta["cfg"], c.meta["uses"], c.meta["exp"]
    tags = rule_tags(cfg)
    for t in tags:
        rep.stat("rule." + t)
    if c.meta.get("tail"):
        rep.stat("tail.multi-values_flag_positional")
    if c.meta.get("ttail"):
        rep.stat("tail.tuple_values_over_uses_and_words")
    if c.meta.get("head"):
        rep.stat("head.argument_file_value_overridden_on_argv")
    for (sid, text), (words, st, order) in zip(c.scenarios, c.meta["argvs"]):
        r = results[sid]
        for k, v in st.items():
            rep.stat("spell." + k, v)
        if len(uses) >= 2 and tags:
            rep.distinct(text.split("\n", 1)[1])
        if r.status != "ok":
            why = r.ewhat
            cls = "other"
            for pat, name in (("requires value", "missing-value"), ("excluded by", "excluded"), ("required by", "required"), ("is missing", "required"),
                              ("abbreviation", "ambiguous"), ("Unknown argument", "unknown"), ("too many values", "cardinality"),
                              ("not all expected", "cardinality"), ("Mandatory", "mandatory"), ("below limit", "check"), ("above or equal", "check"),
                              ("cannot be used since", "any/one_of"), ("None of the arguments", "one_of"), ("required but missing", "all_of"),
                              ("same value", "differ"), ("intersect", "disjoint"), ("bad lexical cast", "conversion"), ("not in the list", "check"),
                              ("already have a value", "level-mix"), ("does not match", "check"), ("too short", "check"), ("too long", "check")):
                if pat in why:
                    cls = name
                    break
            rep.viol("rejected|%s" % cls, "valid line rejected: %s: %s | uses=%r argv=%r" % (r.etype, r.ewhat, order, words), [text])
            continue
        bad = 0
        for a in cfg.args:
            if a.slot == "tu9":
                d = r.slots.get("tu9", "?")
                try:
                    p = d[1:-1].split(",")
                    got = (int(p[0]), bytes.fromhex(p[1][1:]).decode("latin-1"), float.fromhex(p[2]))
                except (ValueError, IndexError):
                    got = d
                if got != exp["tu9"]:
                    bad += 1
                    rep.viol("wrong-value|tuple", "slot tu9 = %r, expected %r | argv=%r" % (got, exp["tu9"], words), [text])
                continue
            got = argh.parse_dump(a.slot, r.slots.get(a.slot, "?"))
            if not argh.values_equal(a.slot, got, exp[a.slot]):
                bad += 1
                usedhere = any(u.arg is a for u in uses) or a.slot in ("vi9", "b9", "s9")
                rep.viol("%s|%s" % ("wrong-value" if usedhere else "unused-changed", argh.cat_of(a.slot)),
                         "slot %s (%s) = %r, expected %r | uses=%r argv=%r" % (a.slot, a.keyspec(), got, exp[a.slot], order, words), [text])
        if not bad:
            rep.stat("accepted_with_expected_values")
    if c.scenarios:
        rep.sample("rules=%s argv=%r" % (sorted(tags), c.meta["argvs"][-1][0]))


def run(tier, seed, modes=None):
    import sys
    return drv.run(sys.modules[__name__], tier, seed)


def replay(path):
    import sys
    return drv.replay(sys.modules[__name__], path)
