"""C04 - argument evaluation is memory-safe for every argument vector and source."""
import os
import subprocess
import time

import argh
import argh_driver as drv
import argh_gen as gen
import vcommon as vc
from argh import HF, hx

PROP = "C04"
BATCH = 250
RULE = ("scenario = one argv (exact-size heap argv[argc+1] with argv[argc]==nullptr, every word its own exact-size heap block) "
        "evaluated on one of 13 fixed handler configurations (plain; all help flags with and without 'continue after "
        "usage'; hidden/deprecated display arguments; program-argument file + environment variable sources; end-values "
        "+ multi-value + positional; no-abbreviation + verbose + list-arg-vars; bracket handlers; sub-group; command-mode "
        "argument; tuple/bitset/map/array/level-counter/optional destinations; argument group with two members) in the "
        "ASan+UBSan+_GLIBCXX_ASSERTIONS build. Generators: random bytes (argc 1..12, words of 0..40 bytes over 1..255 "
        "biased to '- = ( ) ! , ; quotes backslash digits'), grammar-aware mutation of a valid spelling (splice, duplicate, "
        "truncate, replace by '-', '--', '---', '-=', '--=', '--=x', '-a-', '(', ')', '!', empty word, 4 KiB word), program "
        "names of every length 0..64 with '/', trailing '/', dots, non-ASCII combined with an argument file (absent/empty/"
        "no trailing newline/comments/garbage) and an environment variable (unset/empty/unbalanced quotes). Oracle: any "
        "sanitizer/assertion report, terminate, exception not derived from std::exception, or a hang (watchdog fired twice "
        "on the same scenario) refutes; outcomes return / std::exception / documented exit() are fine. thorough adds a "
        "libFuzzer run (clang, ASan+UBSan) over the same configurations. non-trivial = every scenario with argc >= 2; "
        "distinct = hash of (configuration, argv, file, environment).")
ASSUMPTIONS = ["argc >= 1 (a real process always has argv[0])", "a clean sanitizer run is not memory safety: executed paths only, red-zone granularity",
               "exit() inside the library is intercepted with -Wl,--wrap=exit + longjmp (destructors of that evaluation are skipped)"]

H = HF


def A(slot, spec, *opts):
    return ("A %s %s %s %s" % (slot, hx(spec), hx("description of " + spec), " ".join(opts))).rstrip()


CONFIGS = [
    ("plain", ["F 0", A("b0", "f,flag"), A("i0", "i,int"), A("s0", "s,str"), A("vi0", "v,vec"), A("d0", "d,dbl"), A("b1", "x")]),
    ("help-cont", ["F %d" % (H["helpShort"] | H["helpLong"] | H["helpArg"] | H["helpArgFull"] | H["usageCont"] | H["argHidden"] | H["argDeprecated"] | H["usageShort"] | H["usageLong"]),
                   A("i0", "i,int", "mand"), A("s0", "s,str", "hidden"), A("s1", "old", "depr"), A("s2", "older", "repl=" + hx("--str")), A("vs0", "l,list")]),
    ("help-exit", ["F %d" % (H["helpShort"] | H["helpLong"] | H["helpArg"]), A("i0", "i,int"), A("s0", "s,str")]),
    ("sources", ["F %d" % (H["readProgArg"] | H["envVarArgs"]), A("i0", "i,int"), A("s0", "s,str"), A("vi0", "v,vec"), A("b0", "f"),
                 A("ca0", "a,arr"), A("ar0", "r,array"), A("tu0", "t,tuple"), A("bs0", "b,bits"), A("vb0", "vbool")]),
    ("endvalues", ["F %d" % H["endValues"], A("vi0", "v,vec", "multi"), A("vs0", "w,words", "multi"), A("s0", "-"), A("b0", "f")]),
    ("noabbr-verbose", ["F %d" % (H["noAbbr"] | H["verbose"] | H["listArgVar"] | H["usageCont"]), A("i0", "i,int"), A("s0", "str"), A("li0", "list"), A("b0", "f")]),
    ("brackets", ["F 0", "B", A("i0", "i,int"), A("b0", "f"), A("vs0", "n,names")]),
    ("subgroup", ["F %d" % (H["helpShort"] | H["usageCont"] | H["helpArg"] | H["helpArgFull"]), A("i0", "i,int"), "SG %s 0" % hx("g,group"), A("s0", "n,name"), A("i1", "p,port"), "SE", A("b0", "f")]),
    ("command", ["F 0", A("s0", "c,cmd", "vm=cmd"), A("i0", "i,int"), A("b0", "f")]),
    ("special-dest", ["F 0", A("tu0", "t,tuple"), A("bs0", "b,bits"), A("mp0", "m,map"), A("ca0", "a,arr"), A("ar0", "r,array"), A("lc0", "l,level"), A("oi0", "o,opt"),
                      A("vb0", "vbool"), A("db0", "dynbits"), A("pq0", "prio"), A("mm0", "mmap"), A("bb0", "bigbits")]),
    ("positional-cmd", ["F 0", A("s0", "-", "vm=cmd"), A("i0", "i")]),
    ("presized", ["F 0", "I vb0 " + hx("1"), "I vb1 " + hx("2\x1f1"), "I db0 " + hx("1"), "I db1 " + hx("3\x1f0"), A("vb0", "a,one"), A("vb1", "b,two", "unset"),
                  A("db0", "c,dynone"), A("db1", "d,dynthree", "unset"), A("bs0", "e,bits", "unset"), A("ca0", "f,arr", "unique", "sort"), A("tu0", "t,tuple")]),
    # the same destinations with a format set: the library has a separate assignment path (own range checks) for that case
    ("formatted", ["F 0", "I vb0 " + hx("2\x1f1"), "I db0 " + hx("3\x1f0"), A("bs0", "b,bits", "fmt=upper"), A("bb0", "bigbits", "fmt=lower"), A("vb0", "vbool", "fmt=lower"), A("db0", "dynbits", "fmt=upper"),
                   A("ca0", "a,arr", "fmt=upper", "fmtpos=2:lower"), A("ar0", "r,array", "fmtpos=0:upper", "fmtpos=2:lower"), A("tu0", "t,tuple", "fmtpos=1:upper"),
                   A("vs0", "w,words", "fmt=lower", "fmtpos=1:upper", "fmtpos=30:upper"), A("mp0", "m,map", "fmtkey=upper", "pairfmt=" + hx("={}")),
                   A("um0", "u,umap", "fmtval=lower", "fmtkey=upper"), A("s0", "s,str", "fmt=anycase:" + hx("Ullll"))]),
    ("group", ["GF %d" % H["usageCont"], "G %s %d" % (hx("first"), H["helpShort"] | H["helpLong"]), A("i0", "i,int"), A("vi0", "v,vec", "multi"),
               "G %s 0" % hx("second"), A("s0", "s,str"), A("b0", "f"), "C all_of %s" % hx("s;f")]),
]

VALID = {
    "plain": [["-f", "-i", "5", "--str", "abc", "-v", "1,2,3", "--dbl=2.5", "-x"], ["-fx", "-i5", "-sabc"]],
    "help-cont": [["-i", "1", "--help"], ["--print-hidden", "-h"], ["--help-arg=int"], ["--help-arg-full", "i"], ["--help-short", "--help"], ["-i", "3", "-l", "a,b"],
                  ["--help-arg", "i/x"], ["--help-arg=--int/int"], ["--help-arg-full", "str/s"], ["--help-arg=l/list"], ["--help-arg", "-i/"], ["--help-arg=/i"], ["--help-arg", "i/i/i"]],
    "help-exit": [["--help"], ["-h"], ["--help-arg", "s"], ["-i", "7"], ["--help-arg", "i/s"], ["--help-arg=str/int"]],
    "sources": [["-i", "3", "-f"], ["--str", "x", "-v", "4,5"], ["-a", "1,2", "-r", "7"], ["-a", "5"], ["-r", "9,9"], ["-t", "1,x,2.5"], ["-b", "3,15"],
                ["--vbool", "9,10,11"]],
    "endvalues": [["-v", "1", "2", "3", "--endvalues", "pos"], ["-w", "a", "b", "-f", "free"]],
    "noabbr-verbose": [["--str", "a", "-i", "4", "--list", "1,2", "--list-arg-vars"], ["-f"]],
    "brackets": [["(", "-i", "3", ")", "-f"], ["-n", "a,b", "(", "(", ")", ")"], ["!", "-f"]],
    "subgroup": [["-i", "1", "-g", "-n", "host", "-p", "80", "-f"], ["--group", "--name=x"], ["-h"], ["--help-arg", "g/n"], ["--help-arg=group/port"], ["--help-arg", "i/n"],
                 ["--help-arg=f/p"], ["--help-arg", "g/zz"]],
    "command": [["-i", "2", "-c", "ls", "-l", "/tmp"], ["-f", "--cmd", "a", "b"]],
    "special-dest": [["-t", "1,two,3.5", "-b", "1,3,5", "-m", "a,1;b,2", "-a", "1,2,3,4", "-r", "7,8,9", "-l", "-l", "-o", "9"],
                     ["--vbool", "1,12,30", "--dynbits", "0,9,70", "--prio", "3,1,2", "--mmap", "1,x;1,y"], ["-lll"], ["-l", "4"],
                     ["--bigbits", "0,63,64,99"], ["--bigbits=100"], ["--bigbits=-1"], ["-b-1"], ["-b", "3,-20"], ["--bigbits", "5,-200"]],
    "positional-cmd": [["-i", "1", "rest", "of", "the", "line"], ["word"]],
    "presized": [["-a", "0", "-b", "1", "-c", "0", "-d", "2"], ["-a", "1"], ["-a", "2"], ["-b", "2"], ["-b", "3"], ["-c", "1"], ["-c", "2"], ["-d", "3"], ["-d", "4,5"],
                 ["-e", "15", "-f", "1,2,3,4", "-t", "1,x,2.5"], ["-e", "16"], ["-f", "1,1,2,2,3,3"], ["-a", "1,2,3"], ["-a", "14", "-a", "15", "-a", "22"]],
    "formatted": [["-b", "1,15", "--vbool", "0,1,9", "--dynbits", "2,3,70"], ["-b", "16"], ["--bigbits", "1,64,99"], ["--bigbits=-1"], ["--bigbits", "7,-64"], ["-b-1"], ["-a", "1,2,3,4", "-r", "7,8,9"], ["-a", "1,2,3,4,5"], ["-r", "1,2", "-r", "3,4"],
                  ["-t", "1,two,3.5"], ["-w", "a,B,c", "-w", "dd"], ["-m", "{a=1};{b=2}", "-u", "k,V;q,W"], ["-m", "{a=1"], ["-s", "heLLo world"], ["-s", ""], ["-s", "x"],
                  ["--vbool", "2"], ["--vbool", "3"], ["--dynbits", "3"], ["--dynbits", "4"]],
    "group": [["-i", "1", "-s", "x", "-f"], ["-v", "1", "2", "3", "-f", "-s", "q"], ["-h"]],
}

BIAS = b"-=()!,;\"'\\0123456789 "
SPECIALS = ["-", "--", "---", "-=", "--=", "--=x", "-a-", "(", ")", "!", "", "=", "-=-", "--i", "-i=", "--int=", "--=", "-\x80", "- ", "-,", "--,"]


# positions are either small enough to be allocated quickly or far beyond any allocation limit (the mid range, hundreds of
# megabytes per bit vector, only burns time in 16 parallel workers)
EXTREME = ["-1", "-20", "99999999999999999999", "18446744073709551615", "18446744073709551614", "0777777777777777", "1e9", "20000000",
           "-2147483649", "9223372036854775807", "-9223372036854775808", "1.5", "0x10", "00000000000000000000000000000000000000007"]


def unjudged_crash(kind):
    """report kinds that are not an invalid memory access in the sense of C04: resource limits of the tools
    (a too large allocation ends in std::bad_alloc / std::length_error in a normal build) and purely arithmetic UBSan kinds"""
    if kind.startswith("limit:"):
        return kind
    if kind.startswith("ubsan:") and ("outside-the-range-of-representable" in kind or "is-outside-the-range" in kind or "signed-integer-overflow" in kind
                                      or "cannot-be-represented" in kind or "shift" in kind):
        return "ubsan-arithmetic"
    return None


def rand_word(rng, maxlen=40):
    n = rng.choice([0, 1, 1, 2, 2, 3, 4, 6, 10, 20, maxlen])
    b = bytearray()
    for _ in range(n):
        if rng.random() < 0.5:
            b.append(rng.choice(BIAS))
        else:
            b.append(rng.randint(1, 255))
    return b.decode("latin-1")


def cases(tier):
    return 300000 if tier == "quick" else 3000000


def config_text(ci):
    return "\n".join(CONFIGS[ci][1]) + "\n"


def scenario(sid, tag, ci, words, prog="prog", extra=""):
    return "S %s %s\n%s%sV %s\nR\n" % (sid, tag, config_text(ci), extra, " ".join(hx(w) for w in [prog] + list(words)))


def gen_case(seed, idx, tier):
    rng = drv.case_rng(seed, PROP, idx)
    c = drv.Case(idx)
    ci = idx % len(CONFIGS)
    name = CONFIGS[ci][0]
    g = (idx // len(CONFIGS)) % 3
    if name == "sources" and rng.random() < 0.7:
        g = 2
    if g == 0:
        tag = "random-bytes"
        words = [rand_word(rng) for _ in range(rng.randint(0, 11))]
        extra, prog = "", "prog"
    elif g == 1:
        tag = "grammar-mutation"
        words = list(rng.choice(VALID[name]))
        for _ in range(rng.choice([1, 1, 2, 3])):
            op = rng.choice(["splice", "dup", "trunc", "special", "special", "insert-rand", "drop", "bigword", "swap", "cut-word", "extreme", "extreme"])
            if op == "splice":
                other = rng.choice(VALID[rng.choice(list(VALID))])
                p = rng.randint(0, len(words))
                words[p:p] = other[:rng.randint(1, len(other))]
            elif op == "dup" and words:
                p = rng.randrange(len(words))
                words.insert(p, words[p])
            elif op == "trunc" and words:
                words = words[:rng.randint(0, len(words) - 1)]
            elif op == "special":
                p = rng.randint(0, len(words))
                if words and rng.random() < 0.5:
                    words[rng.randrange(len(words))] = rng.choice(SPECIALS)
                else:
                    words.insert(p, rng.choice(SPECIALS))
            elif op == "insert-rand":
                words.insert(rng.randint(0, len(words)), rand_word(rng))
            elif op == "drop" and words:
                del words[rng.randrange(len(words))]
            elif op == "bigword":
                words.insert(rng.randint(0, len(words)), rng.choice(["-", "--", "", "x"]) + "A" * rng.choice([4096, 70000]))
            elif op == "swap" and len(words) > 1:
                i, j = rng.sample(range(len(words)), 2)
                words[i], words[j] = words[j], words[i]
            elif op == "extreme" and words:
                p = rng.randrange(len(words))
                parts = words[p].split(",")
                parts[rng.randrange(len(parts))] = rng.choice(EXTREME)
                words[p] = ",".join(parts)
            elif op == "cut-word" and words:
                p = rng.randrange(len(words))
                words[p] = words[p][:rng.randint(0, len(words[p]))]
        extra, prog = "", "prog"
    else:
        tag = "program-name"
        # every length 0..64, plus the lengths around NAME_MAX (255) and PATH_MAX (4096) and a few long ones
        n = rng.randint(0, 64) if rng.random() < 0.7 else rng.choice([100, 200, 254, 255, 256, 257, 300, 511, 512, 1000, 4095, 4096, 4097, 5000, 20000])
        style = rng.choice(["plain", "path", "trailing-slash", "dots", "nonascii", "relative"])
        base = "".join(rng.choice("abcdefXYZ09_-.") for _ in range(n))
        if style == "path":
            prog = "/usr/local/bin/" + base
        elif style == "trailing-slash":
            prog = "/opt/" + base + "/"
        elif style == "dots":
            prog = rng.choice([".", "..", "./" + base, "../" + base, base + ".", "." + base])
        elif style == "nonascii":
            prog = base + "\xe4\xf6\xfc"[:rng.randint(0, 3)]
        elif style == "relative":
            prog = "bin/" + base
        else:
            prog = base
        words = list(rng.choice(VALID[name])) if rng.random() < 0.7 else [rand_word(rng) for _ in range(rng.randint(0, 4))]
        extra = ""
        bn = os.path.basename(prog.rstrip("/")) if prog.rstrip("/") else (prog[:1] or ".")
        if prog in (".", ".."):
            bn = prog
        fkind = rng.choice(["absent", "empty", "no-newline", "comments", "garbage", "valid", "layout", "layout"])
        if fkind != "absent" and "/" not in bn and bn not in ("", ".", ".."):
            # fixed-size destinations filled from the file (their limit must hold for every source, not only for argv)
            fixed = rng.choice(["-a 1,2,3,4\n", "-a 1,2,3,4,5\n", "-a 1,2\n-a 3,4\n", "-r 7,8\n-r 9,10\n", "-r 1,2,3,4\n", "-t 1,x,2.5,9\n",
                                "-b 3,16\n", "--vbool 9,10,31\n", "-a 1\n-a 2\n-a 3\n-a 4\n-a 5\n"])
            # line layouts: blank-only / tab-only / indented lines, very short and long lines (buffer inside the string object
            # resp. on the heap), CR LF, a lone '#', quotes that stay open, nothing but separators
            pieces = ["", " ", "   ", "\t", " \t ", "#", " # indented comment", "-i 4", "   -i 5", "-i 6   ", "--str " + "x" * rng.choice([1, 15, 16, 17, 40, 300]),
                      "# " + "c" * rng.choice([10, 16, 64]), "-v 1,2,3", "--str 'open", "--str \"open", "-i", "=", "--", "-", "--str=\\", "-i 4\r", "\r",
                      " " * rng.choice([16, 17, 64]), "-f -f", ",,,", "--vec ,", "--str ''"]
            layout = "\n".join(rng.choice(pieces) for _ in range(rng.randint(1, 8))) + rng.choice(["\n", "", "\n\n", " "])
            content = {"empty": "", "no-newline": "-i 4", "comments": "# comment\n\n-i 4\n# x\n--str 'a b'\n", "layout": layout,
                       "garbage": "".join(chr(rng.randint(1, 255)) for _ in range(rng.randint(1, 80))) + "\n",
                       "valid": rng.choice(["-i 4\n--str x\n", fixed, "-i 4\n" + fixed])}[fkind]
            extra += "P %s %s\n" % (hx(".progargs/%s.pa" % bn), hx(content))
        ekind = rng.choice(["unset", "empty", "valid", "unbalanced", "garbage"])
        if ekind != "unset" and bn and "=" not in bn:
            val = {"empty": "", "valid": rng.choice(["-i 9 --str 'x y'", "-a 1,2,3,4,5", "-r 7,8 -r 9,10", "-a 1,2,3 -a 4 -a 5", "-t 1,x,2.5,9", "-b 16"]),
                   "unbalanced": "-s 'abc --str \"q", "garbage": rand_word(rng) + " " + rand_word(rng)}[ekind]
            extra += "E %s %s\n" % (hx(bn.upper()), hx(val))
        tag = "program-name"
    if rng.random() < 0.05:
        ci2 = CONFIGS.index([x for x in CONFIGS if x[0] == "sources"][0])
        ci = ci2 if g == 2 else ci
    c.meta.update(ci=ci, tag=tag, argc=len(words) + 1)
    c.add("c04", lambda sid: scenario(sid, tag, ci, words, prog, extra))
    return c


def judge(c, results, rep):
    sid, text = c.scenarios[0]
    r = results[sid]
    rep.stat("gen.%s.%s" % (c.meta["tag"], CONFIGS[c.meta["ci"]][0]))
    rep.stat("outcome.%s" % r.status)
    if r.status == "throw":
        rep.stat("exc." + r.etype.replace(" ", ""))
    if c.meta["argc"] >= 2:
        rep.distinct(text.split("\n", 1)[1])
    if r.status == "throwx":
        rep.viol("%s|non-std-exception" % c.meta["tag"], "exception not derived from std::exception", [text])
    elif r.status == "setup":
        rep.infra.append("configuration %s could not be set up: %s %s" % (CONFIGS[c.meta["ci"]][0], r.etype, r.ewhat))
    if rep.stats.get("cases", 0) % 5000 == 1:
        rep.sample(text.replace("\n", " / ")[-400:])


# ---------------------------------------------------------------- thorough: libFuzzer

def fuzz(chk, seed, runs_per_job, jobs):
    t0 = time.time()
    exe = vc.build_harness("argh_fuzz", ["argh_fuzz.cpp"], "fuzz", extra_ldflags=["-Wl,--wrap=exit"], deps=["argh_interp.cpp"])
    work = os.path.join(vc.scratch(), "fuzz")
    os.makedirs(os.path.join(work, "corpus"), exist_ok=True)
    # seed corpus from the valid lines
    n = 0
    for ci, (name, _l) in enumerate(CONFIGS):
        for words in VALID.get(name, []):
            with open(os.path.join(work, "corpus", "seed%03d" % n), "wb") as fh:
                fh.write(bytes([ci]) + "\x00".join(words).encode("latin-1"))
            n += 1
    with open(os.path.join(work, "dict"), "w") as fh:
        for w in ["-i", "--int", "-f", "--str", "--help", "-h", "--help-arg", "--vec", "--endvalues", "(", ")", "!", "--", "-", "=", ",", ";",
                  "--group", "--cmd", "--tuple", "--bits", "--map", "--level", "--print-hidden", "--list-arg-vars"]:
            fh.write('"%s"\n' % w.replace("\\", "\\\\").replace('"', '\\"'))
    with open(os.path.join(work, "configs.txt"), "w") as fh:
        for ci, (name, _l) in enumerate(CONFIGS):
            fh.write("S cfg%d fuzz-%s\n%s" % (ci, name, config_text(ci)))
    env = vc.flavour_env("fuzz", {"HOME": os.path.join(work, "home"), "ARGH_FUZZ_CONFIGS": os.path.join(work, "configs.txt")})
    os.makedirs(os.path.join(work, "home"), exist_ok=True)
    # fork mode: the jobs go on after a crash / timeout / oom (artifacts are kept and triaged below); -runs is the total
    cmd = [exe, "-seed=%d" % seed, "-runs=%d" % (runs_per_job * jobs), "-max_len=256", "-fork=%d" % jobs, "-ignore_crashes=1",
           "-ignore_ooms=1", "-ignore_timeouts=1",
           "-dict=" + os.path.join(work, "dict"), "-artifact_prefix=" + os.path.join(work, "crash-"), "-print_final_stats=1",
           "-timeout=20", "-malloc_limit_mb=1024", "-rss_limit_mb=6000", os.path.join(work, "corpus")]
    p = subprocess.run(cmd, cwd=work, env=env, stdout=subprocess.PIPE, stderr=subprocess.STDOUT, text=True, errors="replace")
    execs = 0
    cov = 0
    import glob
    import re
    m = re.findall(r"#(\d+): cov: (\d+) ft: (\d+) corp: (\d+) exec/s (\d+) oom/timeout/crash: (\d+)/(\d+)/(\d+)", p.stdout)
    if m:
        execs, cov = int(m[-1][0]), int(m[-1][1])
        chk.count("fuzz.corpus", int(m[-1][3]))
        chk.count("fuzz.oom_timeout_crash_events", int(m[-1][5]) + int(m[-1][6]) + int(m[-1][7]))
    chk.count("fuzz.executions", execs)
    chk.count("fuzz.edge_coverage", cov)
    chk.count("fuzz.jobs", jobs)
    arts = sorted(set(glob.glob(os.path.join(work, "crash-*"))))
    chk.count("fuzz.artifacts", len(arts))
    for a in arts[:40]:
        data = open(a, "rb").read()
        # re-run the artifact alone to get the report (child reports are lost with -jobs)
        # a libFuzzer timeout (20 s wall clock in one of 16 busy jobs) is no verdict: the input is re-run alone with a generous
        # watchdog; only an input that does not finish there either (twice) is reported as a hang
        is_to = "timeout" in os.path.basename(a)
        hung = 0
        q = None
        for _try in range(2 if is_to else 1):
            try:
                q = subprocess.run([exe, a], cwd=work, env=env, stdout=subprocess.PIPE, stderr=subprocess.STDOUT, text=True, errors="replace", timeout=600)
                break
            except subprocess.TimeoutExpired:
                hung += 1
        if q is None:
            chk.report("fuzz|hang", "libFuzzer input does not finish within 600 s (twice): %s" % data[:200].hex(), dict(fuzz_input_hex=data.hex()))
            continue
        kind, func = vc.classify_report(q.stdout)
        if is_to and q.returncode == 0:
            chk.count("fuzz.slow_inputs_finished_alone")
            continue
        cat = unjudged_crash(kind)
        if cat:
            chk.count("fuzz.unjudged." + cat)
            continue
        if q.returncode == 0 and kind.startswith("crash"):
            chk.count("fuzz.artifacts_not_reproduced")
            continue
        chk.report("fuzz|%s|%s" % (kind, func), "libFuzzer artifact %s" % data[:200].hex(), dict(fuzz_input_hex=data.hex(), report=q.stdout[-4000:]))
    chk.coverage["evaluations"] += execs
    chk.count("fuzz.wall_s", int(time.time() - t0))
    if execs == 0:
        chk.infra.append("libFuzzer executed nothing: %s" % p.stdout[-1500:])


def finalize(chk):
    if chk.tier == "thorough" and not os.environ.get("VERIF_NO_FUZZ"):
        try:
            fuzz(chk, chk.seed, int(os.environ.get("VERIF_FUZZ_RUNS") or 300000), vc.NCPU)
        except vc.HarnessError as e:
            chk.infra.append(str(e))


def run(tier, seed, modes=None):
    import sys
    return drv.run(sys.modules[__name__], tier, seed)


def replay(path):
    import json
    import sys
    obj = json.load(open(path))
    if "fuzz_input_hex" in obj:
        exe = vc.build_harness("argh_fuzz", ["argh_fuzz.cpp"], "fuzz", extra_ldflags=["-Wl,--wrap=exit"], deps=["argh_interp.cpp"])
        f = os.path.join(vc.scratch(), "artifact")
        open(f, "wb").write(bytes.fromhex(obj["fuzz_input_hex"]))
        cf = os.path.join(vc.scratch(), "configs.txt")
        with open(cf, "w") as fh:
            for ci, (name, _l) in enumerate(CONFIGS):
                fh.write("S cfg%d fuzz-%s\n%s" % (ci, name, config_text(ci)))
        q = subprocess.run([exe, f], env=vc.flavour_env("fuzz", {"ARGH_FUZZ_CONFIGS": cf, "HOME": vc.scratch()}), stdout=subprocess.PIPE, stderr=subprocess.STDOUT, text=True, errors="replace")
        print(q.stdout[-4000:])
        if q.returncode != 0:
            print("VIOLATION property=C04 replay=%s" % path)
            return 1
        return 0
    return drv.replay(sys.modules[__name__], path)
