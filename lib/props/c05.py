"""C05 - a key designates exactly one argument, independent of definition order."""
import itertools

import argh
import argh_driver as drv
from argh import hx

PROP = "C05"
BATCH = 20
RULE = ("case = (ordered list of key specifications, abbreviations on/off). Specifications come from a 25-spec universe "
        "(26 with the positional key '-') built from shorts {a,b,c,i} and longs {in, inp, input, input-file, input-dir, out, o2, i-o} (prefix chains, with and "
        "without leading dashes, 'short,long' in both orders). quick: every set of <= 2 specs in every order (exhaustive) "
        "+ random sets of 3-6 specs in 4 random orders; thorough: every set of <= 3 specs in every definition order "
        "(exhaustive, 12 720 ordered lists) x {abbr on, off} + random larger sets. Every argument has its own int slot; "
        "scenario = one definition + one probe '<key> 7' for every exact short/long key and every proper prefix "
        "(length >= 2) of every long key of the universe, plus every long key extended by 'zz' (must designate nothing). Oracle (30-line key-identity model): a definition is refused iff "
        "its short or its long key is already taken by an accepted one; an exact key sets exactly the slot of its owner; a "
        "proper prefix sets the slot of the only accepted long key starting with it iff abbreviations are on, otherwise "
        "the probe is rejected and no slot changes. non-trivial = >= 2 specs; distinct = hash of (ordered specs, flag, probe).")
ASSUMPTIONS = ["one-character long keys and one-character prefixes are not probed ('--i' is indistinguishable from the short key 'i' in the handler's key type)"]

UNIVERSE = ["a", "b", "i", "-c",
            "in", "inp", "input", "--input-file", "input-dir", "out", "o2",
            "a,in", "b,in", "a,inp", "i,input", "input,c", "-b,--input-file", "c,input-dir", "i,out", "a,out",
            "b,o2", "c,o2", "i,in", "input-dir,a", "i-o", "-"]
LONGS = ["in", "inp", "input", "input-file", "input-dir", "out", "o2", "i-o"]
SHORTS = ["a", "b", "c", "i"]


def parse_spec(spec):
    parts = [p.lstrip("-") for p in spec.split(",")]
    s = [p for p in parts if len(p) == 1]
    l = [p for p in parts if len(p) > 1]
    return (s[0] if s else None, l[0] if l else None)


def enum_lists(maxk):
    res = []
    for k in range(1, maxk + 1):
        for comb in itertools.combinations(range(len(UNIVERSE)), k):
            for perm in itertools.permutations(comb):
                res.append(perm)
    return res


_LISTS = {}


def lists_for(tier):
    if tier not in _LISTS:
        _LISTS[tier] = enum_lists(2 if tier == "quick" else 3)
    return _LISTS[tier]


def nrandom(tier):
    return 10000 if tier == "quick" else 200000


def cases(tier):
    return 2 * len(lists_for(tier)) + nrandom(tier)


def model(specs):
    """-> (accepted flags, short owner map, long owner map)"""
    so, lo, acc = {}, {}, []
    for i, sp in enumerate(specs):
        if sp == "-":
            # the positional argument: no key at all, it conflicts with nothing (the universe holds it once)
            acc.append(True)
            continue
        s, l = parse_spec(sp)
        if (s and s in so) or (l and l in lo):
            acc.append(False)
            continue
        acc.append(True)
        if s:
            so[s] = i
        if l:
            lo[l] = i
    return acc, so, lo


def probes():
    p = [("-" + s, "short", s) for s in SHORTS]
    seen = set()
    for l in LONGS:
        for n in range(2, len(l) + 1):
            w = l[:n]
            if w not in seen:
                seen.add(w)
                p.append(("--" + w, "long", w))
    # a word that EXTENDS a long key designates nothing (it is neither the key nor an abbreviation of it)
    for l in LONGS:
        p.append(("--" + l + "zz", "long", l + "zz"))
    # short keys nobody defines: unknown, also when a positional argument exists
    p.append(("-q", "short", "q"))
    p.append(("-y", "short", "y"))
    return p


PROBES = probes()


def gen_case(seed, idx, tier):
    c = drv.Case(idx)
    ex = lists_for(tier)
    subgroup = set()
    if idx < 2 * len(ex):
        order = [UNIVERSE[i] for i in ex[idx // 2]]
        abbr = idx % 2 == 0
        c.meta["exhaustive"] = True
    else:
        rng = drv.case_rng(seed, PROP, idx)
        k = rng.randint(3, 6)
        order = rng.sample(UNIVERSE, k)
        abbr = rng.random() < 0.5
        # some of the keys open a sub-group (an argument whose "value" is another handler with the argument -z): they live in
        # the same key space and obey the same lookup rules
        if rng.random() < 0.4:
            subgroup = set(i for i in range(k) if rng.random() < 0.35 and order[i] != "-")
    flags = 0 if abbr else argh.HF["noAbbr"]
    defs = "".join(("SGT i%d %s\n" % (i, hx(sp))) if i in subgroup else ("AT i%d %s %s\n" % (i, hx(sp), hx("d"))) for i, sp in enumerate(order))
    c.meta.update(order=order, abbr=abbr, probes=[], subgroup=sorted(subgroup))
    acc, so, lo = model(order)
    for word, kind, key in PROBES:
        c.meta["probes"].append((word, kind, key))
        # the value follows the key directly; behind a sub-group key it is given to the sub-group's argument -z
        if kind == "short":
            cand = [so[key]] if key in so else []
        else:
            cand = [lo[key]] if key in lo else [i for l, i in lo.items() if l.startswith(key)]
        tail = ["-z", "7"] if cand and cand[(idx + len(key)) % len(cand)] in subgroup else ["7"]
        c.add("c05", lambda sid, w=word, t=tail: "S %s probe\nF %d\n%sV %s\nR\n" % (sid, flags, defs, " ".join(hx(x) for x in ["prog", w] + t)))
    return c


def judge(c, results, rep):
    order, abbr = c.meta["order"], c.meta["abbr"]
    acc, so, lo = model(order)
    for (sid, text), (word, kind, key) in zip(c.scenarios, c.meta["probes"]):
        r = results[sid]
        rep.stat("probes")
        if len(order) >= 2:
            rep.distinct("%r|%d|%s" % (order, abbr, word))
        # (i) definition verdicts
        for i, sp in enumerate(order):
            refused = ("i%d" % i) in r.addfails
            if refused and acc[i]:
                rep.viol("define|conflict-free-refused", "specs %r: %r refused (%s)" % (order, sp, r.addfails["i%d" % i]), [text])
            elif not refused and not acc[i]:
                rep.viol("define|taken-key-accepted", "specs %r: %r accepted although its key is taken" % (order, sp), [text])
        if any((("i%d" % i) in r.addfails) != (not acc[i]) for i in range(len(order))):
            continue
        rep.stat("definitions_as_model")
        # (ii)/(iii) lookup
        if kind == "short":
            owner = so.get(key)
            cls = "exact-short"
        else:
            if key in lo:
                owner, cls = lo[key], "exact-long"
            else:
                starts = [i for l, i in lo.items() if l.startswith(key)]
                cls = "prefix-%d-matches" % min(len(starts), 2)
                owner = starts[0] if (abbr and len(starts) == 1) else None
                if not abbr:
                    cls += "-noabbr"
        rep.stat("probe." + cls)
        changed = [n for n, v in r.slots.items() if v != "0"]
        if owner is None:
            if r.status == "ok":
                rep.viol("lookup|%s|accepted" % cls, "specs %r (sub-group keys: %r) abbr=%s probe %s accepted, slots %r" % (order, c.meta.get("subgroup"), abbr, word, r.slots), [text])
            elif changed:
                rep.viol("lookup|%s|slot-changed" % cls, "specs %r probe %s rejected but slots %r" % (order, word, r.slots), [text])
        else:
            want = "i%d" % owner
            if r.status != "ok":
                rep.viol("lookup|%s|rejected" % cls, "specs %r abbr=%s probe %s should select %r: %s %s" % (order, abbr, word, order[owner], r.etype, r.ewhat), [text])
            elif changed != [want] or r.slots.get(want) != "7":
                rep.viol("lookup|%s|wrong-argument" % cls, "specs %r abbr=%s probe %s should set %s (%r), slots %r" % (order, abbr, word, want, order[owner], r.slots), [text])
    if c.meta.get("subgroup"):
        rep.stat("cases_with_sub_group_keys")
    rep.sample("specs=%r sub-groups=%r abbr=%s accepted=%r" % (order, c.meta.get("subgroup"), abbr, acc))


def finalize(chk):
    chk.coverage["exhaustive_part"] = "all ordered lists of <= %d specs from the 25-spec universe x abbr on/off" % (2 if chk.tier == "quick" else 3)


def run(tier, seed, modes=None):
    import sys
    return drv.run(sys.modules[__name__], tier, seed)


def replay(path):
    import sys
    return drv.replay(sys.modules[__name__], path)
