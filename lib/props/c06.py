"""C06 - multi-value destinations end up as the fold of all values given."""
import argh
import argh_driver as drv
import argh_gen as gen
from argh import HF, Arg, Config, hx, cat_of, elem_of, kind_of

PROP = "C06"
BATCH = 60
RULE = ("case = one container destination (vector<int/string/double>, list, deque, forward_list, set<int/string>, multiset, "
        "unordered_set, queue, stack, priority_queue, int[4], array<int,3>, tuple<int,string,double>, bitset<16>, bitset<100>, vector<bool>, "
        "DynamicBitset, map<string,int>, multimap<int,string>, unordered_map<string,string>) with a legal option combination "
        "(list separator, clear-before-assign, sort, unique / unique-as-error, multi-value, unset-flag, per-element "
        "lower/upper/range checks, case formats for all values and per value position (addFormatPos), pre-existing content) + one element sequence of length 1..10 over a small "
        "domain (duplicates frequent) + up to 6 CUTS of that sequence into repeated uses, separator-joined lists (also with "
        "empty elements '1,,2', leading/trailing separator) and free values in multi-value mode. scenario = one cut executed on "
        "the real handler. Oracle: (a) all cuts of one sequence give the identical destination (needs no model); (b) the "
        "destination equals fold(options, initial content, elements) of the python model per container kind; (c) overflow "
        "probes - N+1 elements into arrays/tuples, position >= N and negative positions into bitset<N>, positions around the size of a pre-sized "
        "vector<bool>/DynamicBitset - must be refused resp. grow, never touch memory outside (ASan build). forward_list order "
        "is not judged (undocumented, compared as multiset). non-trivial = >= 2 elements cut into >= 2 pieces; distinct = hash "
        "of (configuration, argv).")
ASSUMPTIONS = ["python fold per container kind (lib/props/c06.py model())", "fixed arrays with 'unique': judged only when the initial content differs from every value given",
               "growth of vector<bool>/DynamicBitset is not judged, only the set positions"]

KINDS = ["vi", "vs", "vd", "li", "ds", "fl", "si", "ss", "msi", "us", "qu", "st", "pq", "ca", "ar", "tu", "bs", "bb", "vb", "db", "mp", "mm", "um"]
BITCAP = {"bs": 16, "bb": 100}
SORTABLE = {"vi", "vs", "vd", "li", "ds", "fl", "ca", "ar"}
UNIQUEABLE = {"vi", "vs", "vd", "li", "ds", "fl", "si", "ss", "msi", "us", "ca", "ar", "mp", "mm", "um"}
CLEARABLE = {"vi", "vs", "vd", "li", "ds", "fl", "si", "ss", "msi", "us", "qu", "st", "pq", "bs", "bb", "vb", "db", "mp", "mm", "um"}
UNSETTABLE = {"bs", "bb", "vb", "db"}
CAPACITY = {"ca": 4, "ar": 3, "tu": 3}


class Reject(Exception):
    pass


def cases(tier):
    return 15000 if tier == "quick" else 1000000


def small_elem(rng, kind, i=0):
    et = elem_of(kind + "0")
    if kind == "tu":
        return [str(rng.randint(-5, 5)), rng.choice(["a", "bb", "x y", "Q"]), rng.choice(["0.5", "2", "-1.25"])][i % 3]
    if et == "int":
        return str(rng.randint(0, 6))
    if et == "double":
        return rng.choice(["0.5", "1", "2.25", "-1", "3"])
    if et == "string":
        return rng.choice(["a", "b", "c", "ab", "B", "x1", "A"])
    if et == "pos":
        return str(rng.randint(0, BITCAP.get(kind, 16) - 1))
    if et == "kv":
        if rng.random() < 0.02:
            return rng.choice(["a,", ",1", "a", "b,", ",x"])       # malformed pair: must be refused
        if kind == "mp":
            return rng.choice(["a", "b", "c", "k1"]) + "," + str(rng.randint(0, 5))
        if kind == "mm":
            return str(rng.randint(0, 3)) + "," + rng.choice(["x", "y", "z"])
        return rng.choice(["a", "b", "c"]) + "," + rng.choice(["u", "v", "w"])
    raise ValueError(kind)


def gen_arg(rng, kind):
    a = Arg(kind + "0", rng.choice("vwxyz"), rng.choice(["values", "list", "items"]))
    if rng.random() < 0.3:
        a.short = None
    elif rng.random() < 0.2:
        a.long = None
    c = cat_of(a.slot)
    if kind in ("vi", "vs", "vd", "li", "ds", "fl", "si", "ss", "msi", "us", "qu", "st", "pq", "ca", "ar", "tu", "bs", "bb", "vb", "db") and rng.random() < 0.35:
        a.sep = rng.choice([";", ":", "|", "/", "#"])
    if c in ("map", "multimap", "umap") and rng.random() < 0.3:
        a.sep = rng.choice(["|", "/", "#", ":"])
    if c in ("map", "multimap", "umap"):
        if rng.random() < 0.35:
            a.pairfmt = rng.choice([p for p in ("=", ":", "-", "={}", ":[]", "=<>", "-()", "/()") if (a.sep or ";") not in p])
        if kind in ("mp", "um") and rng.random() < 0.3:
            a.fmtkey.append(rng.choice(["upper", "lower"]))
        if kind in ("mm", "um") and rng.random() < 0.3:
            a.fmtval.append(rng.choice(["upper", "lower"]))
    if kind in ("bs", "bb", "vb", "db", "ca", "ar", "vi", "li", "si", "qu", "pq") and rng.random() < 0.2:
        # a format on numeric elements changes nothing, but the library takes a separate path when a format is set
        a.formats.append(rng.choice(["upper", "lower"]))
    if kind in ("ca", "ar") and rng.random() < 0.2:
        a.posformats.append((rng.randrange(4), rng.choice(["upper", "lower"])))
    if kind in CLEARABLE and rng.random() < 0.3:
        a.clear = True
    if kind in SORTABLE and rng.random() < 0.3:
        a.sort = True
    if kind in UNIQUEABLE and rng.random() < 0.35:
        a.unique = True
        a.uniqueerr = rng.random() < 0.3
    if kind in UNSETTABLE and rng.random() < 0.3:
        a.unset = True
    if rng.random() < 0.5:
        a.multi = True
    et = elem_of(a.slot)
    if et == "int" and kind != "tu" and rng.random() < 0.25:
        a.checks.append(rng.choice([("lower", 0, "int"), ("upper", 7, "int"), ("range", 0, 7, "int"), ("lower", 2, "int"), ("upper", 5, "int"), ("range", 1, 6, "int")]))
    if et == "string" and rng.random() < 0.25:
        a.formats.append(rng.choice(["upper", "lower"]))
    if kind in ("vs", "tu") and rng.random() < 0.4:
        # formats per value position: the position in the destination, however the values were split over uses
        for i in rng.sample(range(5) if kind == "vs" else [1], rng.choice([1, 1, 2]) if kind == "vs" else 1):
            a.posformats.append((i, rng.choice(["upper", "lower"])))
    # initial content
    if kind in ("ca", "ar"):
        n = CAPACITY[kind]
        a.init = [str(rng.choice([0, 100, 101, 102])) for _ in range(n)] if rng.random() < 0.5 else ["0"] * n
    elif kind == "tu":
        a.init = ["9", "init", "9.5"] if rng.random() < 0.5 else None
    elif kind in BITCAP:
        a.init = [str(p) for p in sorted(rng.sample(range(BITCAP[kind]), rng.choice([0, 0, 2, 5])))]
    elif kind in ("vb", "db"):
        size = rng.choice([0, 1, 2, 8, 20])
        if kind == "db" and size == 0:
            size = 1
        pos = sorted(rng.sample(range(size), min(size, rng.choice([0, 1, 3])))) if size else []
        a.init = [str(size)] + [str(p) for p in pos]
    elif c in ("map", "multimap", "umap"):
        m = rng.choice([0, 0, 1, 2])
        its = []
        for _ in range(m):
            e = small_elem(rng, kind)
            while e.count(",") != 1 or "" in e.split(","):
                e = small_elem(rng, kind)
            k, v = e.split(",")
            its.append(k + "\x1e" + v)
        if kind != "mm":
            seen, uniq = set(), []
            for it in its:
                if it.split("\x1e")[0] not in seen:
                    seen.add(it.split("\x1e")[0])
                    uniq.append(it)
            its = uniq
        a.init = its
    else:
        a.init = [small_elem(rng, kind) for _ in range(rng.choice([0, 0, 1, 2, 3]))]
        if kind in ("si", "ss", "us"):
            a.init = list(dict.fromkeys(a.init))
    return a


def model(a, elems_by_use):
    """expected canonical content after the uses (list of lists of element texts). Raises Reject when the documented
    outcome is an exception, argh.ModelAbstain when not judged."""
    kind = kind_of(a.slot)
    c, et = cat_of(a.slot), elem_of(a.slot)
    init = a.init
    flat = [e for u in elems_by_use for e in u]
    for e in flat:
        if not argh.check_elem(a, e, et if et not in ("mixed", "kv") else "string"):
            raise Reject("check")
    if kind in ("ca", "ar"):
        n = CAPACITY[kind]
        cur = [int(x) for x in init]
        idx = 0
        for u in elems_by_use:
            for e in u:
                if idx == n:
                    raise Reject("too-many")
                v = argh.conv("int", e)
                if a.unique:
                    if any(int(x) == v for x in init):
                        raise argh.ModelAbstain("array-unique-vs-initial-content")
                    if v in cur[:idx]:
                        if a.uniqueerr:
                            raise Reject("duplicate")
                        continue
                cur[idx] = v
                idx += 1
            if a.sort:
                cur[:idx] = sorted(cur[:idx])
        return cur
    if kind == "tu":
        cur = [9, "init", 9.5] if init else [0, "", 0.0]
        if len(flat) > 3:
            raise Reject("too-many")
        if len(flat) < 3:
            raise Reject("too-few")
        cur = [argh.conv("int", flat[0]), argh.fmt_elem(a, flat[1], 1), float(flat[2])]
        return cur
    if kind in ("bs", "bb", "vb", "db"):
        if kind in BITCAP:
            cur = set(int(p) for p in init)
        else:
            cur = set(int(p) for p in init[1:])
        if a.clear and flat:
            cur = set()
        for e in flat:
            p = argh.conv("pos", e)
            if kind in BITCAP and p >= BITCAP[kind]:
                raise Reject("position")
            if a.unset:
                cur.discard(p)
            else:
                cur.add(p)
        return sorted(cur)
    if c in ("map", "multimap", "umap"):
        cur = [tuple(x.split("\x1e")) for x in init]
        if a.clear and flat:
            cur = []
        for e in flat:
            if e.count(",") != 1:
                raise Reject("pair-format")
            k, v = e.split(",")
            if not k or not v:
                raise Reject("pair-format")
            k, v = fmt_kv(a.fmtkey, k), fmt_kv(a.fmtval, v)
            if kind == "mp":
                argh.conv("int", v)
            if kind == "mm":
                argh.conv("int", k)
            have = any(x[0] == k for x in cur) if kind != "mm" else any(int(x[0]) == int(k) for x in cur)
            if a.unique and have:
                if a.uniqueerr:
                    raise Reject("duplicate")
                continue
            if kind in ("mp", "um") and have:
                continue          # insert() keeps the first
            cur.append((k, v))
        if kind == "mp":
            return sorted("h%s:%d" % (k.encode("latin-1").hex(), int(v)) for k, v in cur)
        if kind == "um":
            return sorted("h%s:h%s" % (k.encode("latin-1").hex(), v.encode("latin-1").hex()) for k, v in cur)
        # multimap: ordered by key, equal keys in insertion order
        items = [(int(k), i, v) for i, (k, v) in enumerate(cur)]
        items.sort(key=lambda t: (t[0], t[1]))
        return ["%d:h%s" % (k, v.encode("latin-1").hex()) for k, _i, v in items]
    # std containers
    cur = [argh.conv(et, x) for x in init]
    if a.clear and flat:
        cur = []
    for u in elems_by_use:
        for e in u:
            v = argh.conv(et, argh.fmt_elem(a, e, len(cur)))
            if a.unique and v in cur:
                if a.uniqueerr:
                    raise Reject("duplicate")
                continue
            if kind in ("si", "ss", "us") and v in cur:
                continue
            cur.append(v)
        if a.sort:
            cur.sort()
    if kind in ("si", "ss", "us", "msi"):
        return sorted(cur)
    if kind == "fl":
        return sorted(cur)        # order of a forward_list is not judged
    if kind == "st":
        return list(reversed(cur))
    if kind == "pq":
        return sorted(cur, reverse=True)
    return cur


def fmt_kv(fmts, text):
    for f in fmts:
        text = "".join((ch.upper() if "a" <= ch <= "z" else ch) if f == "upper" else (ch.lower() if "A" <= ch <= "Z" else ch) for ch in text)
    return text


def pair_spelling(a, e):
    """'k,v' of the abstract element in the configured pair format"""
    if not a.pairfmt or e.count(",") != 1:
        return e
    k, v = e.split(",")
    t = k + a.pairfmt[0] + v
    return a.pairfmt[1] + t + a.pairfmt[2] if len(a.pairfmt) == 3 else t


def canon(a, dump):
    """interpreter dump -> value comparable with model()"""
    kind = kind_of(a.slot)
    if kind in BITCAP:
        bits = dump[1:]
        return sorted(i for i, ch in enumerate(reversed(bits)) if ch == "1")
    if kind in ("vb", "db"):
        if dump.startswith("V"):
            return dump
        return sorted(i for i, ch in enumerate(dump[1:]) if ch == "1")
    if kind == "tu":
        p = dump[1:-1].split(",")
        return [int(p[0]), bytes.fromhex(p[1][1:]).decode("latin-1"), float.fromhex(p[2])]
    if cat_of(a.slot) in ("map", "multimap", "umap"):
        inner = dump[1:-1]
        return inner.split(",") if inner else []
    v = argh.parse_dump(a.slot, dump)
    if kind == "fl":
        return sorted(v)
    if kind == "us":
        return sorted(v)
    return v


def gen_cuts(rng, a, elems, ncuts):
    """cuts: list of chunk lists; a chunk = (kind 'use'|'free', [elems])"""
    cuts = []
    n = len(elems)
    base = [[("use", list(elems))]]                                     # one use with the whole list
    base.append([("use", [e]) for e in elems])                           # one use per element
    if a.multi:
        base.append([("use", [elems[0]])] + [("free", [e]) for e in elems[1:]])   # key + free values
    for c in base:
        if c not in cuts:
            cuts.append(c)
    tries = 0
    while len(cuts) < ncuts and tries < 20:
        tries += 1
        k = rng.randint(1, n)
        pts = sorted(rng.sample(range(1, n), k - 1)) if n > 1 and k > 1 else []
        chunks = [elems[i:j] for i, j in zip([0] + pts, pts + [n])]
        cut = []
        for ci, ch in enumerate(chunks):
            cut.append(("free" if (a.multi and ci > 0 and rng.random() < 0.5) else "use", ch))
        if cut not in cuts:
            cuts.append(cut)
    return cuts


def spell_cut(rng, a, cut, noise):
    words = []
    sep = a.sepchar()
    for ck, ch in cut:
        text = sep.join(pair_spelling(a, e) for e in ch)
        if noise and len(ch) >= 1 and cat_of(a.slot) not in ("map", "multimap", "umap"):
            # empty elements are dropped by the tokenizer (documented for lists): 1,,2 / leading / trailing separator
            r = rng.random()
            if r < 0.15:
                text = sep + text
            elif r < 0.3:
                text = text + sep
            elif r < 0.45 and len(ch) > 1:
                text = text.replace(sep, sep + sep, 1)
        if ck == "free":
            if text.startswith("-") or text in argh.CTRL:
                raise argh.ModelAbstain("free value looks like a key")
            words.append(text)
            continue
        form = rng.choice(["short-word", "short-glue", "long-word", "long-eq"])
        if form.startswith("short") and not a.short:
            form = "long-eq" if rng.random() < 0.5 else "long-word"
        if form.startswith("long") and not a.long:
            form = "short-word"
        if text.startswith("-") or text in argh.CTRL:
            form = "long-eq" if a.long else "short-glue"
        if form == "short-word":
            words += ["-" + a.short, text]
        elif form == "short-glue":
            words.append("-" + a.short + text)
        elif form == "long-word":
            words += ["--" + a.long, text]
        else:
            words.append("--" + a.long + "=" + text)
    return words


def gen_case(seed, idx, tier):
    rng = drv.case_rng(seed, PROP, idx)
    c = drv.Case(idx)
    kind = KINDS[idx % len(KINDS)]
    a = gen_arg(rng, kind)
    cfg = Config(HF["endValues"] if rng.random() < 0.5 else 0)
    cfg.args.append(a)
    # a second, unrelated argument so that routing of free values has an alternative
    b = Arg("i0", "n", "num")
    b.init = "5"
    cfg.args.append(b)
    q = Arg("b0", "q", "quiet")
    q.init = "0"
    cfg.args.append(q)
    probe = rng.random() < 0.2 and kind in ("ca", "ar", "tu", "bs", "bb", "vb", "db")
    n = rng.choice([1, 2, 2, 3, 4, 5, 7, 10])
    if kind in CAPACITY:
        n = rng.choice([1, 2, 3, 4]) if kind == "ca" else rng.choice([1, 2, 3]) if kind == "ar" else 3
        if probe:
            n = CAPACITY[kind] + rng.choice([1, 2])
    if kind == "tu" and rng.random() < 0.15:
        n = rng.choice([1, 2])
    elems = [small_elem(rng, kind, i) for i in range(n)]
    if probe and kind in BITCAP:
        # at / behind the size, and negative positions (wrap to huge unsigned values: refused as well)
        elems[rng.randrange(len(elems))] = str(rng.choice([BITCAP[kind], BITCAP[kind] + 1, 100, 128, 1000, -1, -20, -64, -200]))
    if probe and kind in ("vb", "db"):
        size = int(a.init[0])
        elems[rng.randrange(len(elems))] = str(rng.choice([max(size - 1, 0), size, size + 1, size * 3 // 2, size * 3 // 2 + 1, 2 * size + 5, -1, -3]))
    if a.sep:
        elems = [e.replace(a.sepchar(), "_") for e in elems]
    if kind == "tu":
        cuts = gen_cuts(rng, a, elems, 3 if tier == "quick" else 6)
    else:
        cuts = gen_cuts(rng, a, elems, 6 if tier == "quick" else 12)
    try:
        exp = model(a, [elems])
        verdict = "ok"
    except Reject as e:
        exp, verdict = None, "reject:" + str(e)
    except argh.ModelAbstain as e:
        c.skip = str(e)
        return c
    except ValueError:
        exp, verdict = None, "reject:conversion"
    c.meta.update(a=a, kind=kind, elems=elems, exp=exp, verdict=verdict, cuts=[], probe=probe)
    for cut in cuts:
        # sort/unique per use: the fold of all cuts agrees only at the end -> model() is applied per cut for sort
        try:
            words = spell_cut(rng, a, cut, noise=(verdict == "ok" and kind != "tu"))
        except argh.ModelAbstain:
            continue
        try:
            exp_cut = model(a, [ch for _k, ch in cut]) if verdict == "ok" else None
        except (Reject, argh.ModelAbstain, ValueError):
            continue
        if rng.random() < 0.3:
            words = words + ["-n", "7"] if rng.random() < 0.5 else ["-n", "7"] + words
            bval = 7
        else:
            bval = 5
        c.meta["cuts"].append((cut, words, exp_cut, bval))
        c.add("c06", lambda sid, w=words: argh.scenario_text(sid, "cut", cfg, w))
    # a value-less flag ends a multi-value list: the free value behind it belongs to the positional argument
    # (or is an unknown argument when there is none), never to the container
    c.meta["tails"] = []
    if a.multi and verdict == "ok" and c.meta["cuts"] and rng.random() < 0.5:
        cut, words, exp_cut, bval = c.meta["cuts"][rng.randrange(len(c.meta["cuts"]))]
        if "-n" not in words:
            free = rng.choice(["4", "17", "zz", "x1"])
            with_pos = rng.random() < 0.6
            cfg2 = Config(cfg.flags)
            cfg2.args = list(cfg.args)
            if with_pos:
                pa = Arg("s9", None, None, spec="-")
                pa.init = "none"
                cfg2.args.append(pa)
            ender = rng.choice(["-q", "--quiet"])
            if (cfg.flags & HF["endValues"]) and rng.random() < 0.4:
                ender = "--endvalues"        # the documented way to end a separate value list
            w2 = words + [ender, free]
            sid = c.add("c06", lambda sid, w=w2: argh.scenario_text(sid, "flag-ends-list", cfg2, w))
            c.meta["tails"].append((sid, w2, exp_cut, free, with_pos))
    return c


def judge(c, results, rep):
    a, kind, verdict = c.meta["a"], c.meta["kind"], c.meta["verdict"]
    rep.stat("kind." + kind)
    for o in ("clear", "sort", "unique", "uniqueerr", "multi", "unset"):
        if getattr(a, o):
            rep.stat("option." + o)
    if a.sep:
        rep.stat("option.separator")
    if c.meta["probe"]:
        rep.stat("overflow_probes")
    finals = []
    for (sid, text), (cut, words, exp_cut, bval) in zip(c.scenarios[:len(c.meta["cuts"])], c.meta["cuts"]):
        r = results[sid]
        npieces = len(cut)
        if len(c.meta["elems"]) >= 2 and npieces >= 2:
            rep.distinct(text.split("\n", 1)[1])
        rep.stat("cut.pieces_%s" % ("1" if npieces == 1 else "2+"))
        if any(k == "free" for k, _c in cut):
            rep.stat("cut.with_free_values")
        if r.status == "setup":
            rep.stat("abstain.option-refused-by-destination")
            return
        if verdict != "ok":
            rep.stat("expect." + verdict)
            if r.status == "ok":
                rep.viol("%s|accepted|%s" % (kind, verdict.split(":")[1]), "elements %r (init %r) accepted, destination %s | argv=%r" % (
                    c.meta["elems"], a.init, r.slots.get(a.slot), words), [text])
            continue
        if r.status != "ok":
            rep.viol("%s|rejected" % kind, "%s %s | elements %r init %r argv=%r" % (r.etype, r.ewhat, c.meta["elems"], a.init, words), [text])
            continue
        got = canon(a, r.slots.get(a.slot, "?"))
        finals.append((got, words))
        if got != exp_cut and not (elem_of(a.slot) == "double" and argh.values_equal(a.slot, got, exp_cut)):
            rep.viol("%s|content%s" % (kind, "|sorted" if a.sort else "|unique" if a.unique else "|clear" if a.clear else ""),
                     "got %r expected %r | elements %r init %r opts=%s argv=%r" % (got, exp_cut, c.meta["elems"], a.init, opts(a), words), [text])
        else:
            rep.stat("content_as_model")
        other = argh.parse_dump("i0", r.slots.get("i0", "?"))
        if other != bval:
            rep.viol("%s|other-destination-changed" % kind, "i0=%r expected %r argv=%r" % (other, bval, words), [text])
    texts = dict(c.scenarios)
    for sid, w2, exp_cut, free, with_pos in c.meta.get("tails", []):
        r = results[sid]
        rep.stat("flag_ends_list.%s%s" % ("positional" if with_pos else "no-positional", ".endvalues" if "--endvalues" in w2 else ""))
        if with_pos:
            if r.status != "ok":
                rep.viol("%s|flag-ends-list|rejected" % kind, "%s %s argv=%r" % (r.etype, r.ewhat, w2), [texts[sid]])
            else:
                got = canon(a, r.slots.get(a.slot, "?"))
                pos = argh.parse_dump("s9", r.slots.get("s9", "?"))
                if got != exp_cut or pos != free:
                    rep.viol("%s|flag-ends-list|free-value-misrouted" % kind, "container %r (expected %r), positional %r (expected %r) argv=%r" % (
                        got, exp_cut, pos, free, w2), [texts[sid]])
        elif r.status == "ok":
            rep.viol("%s|flag-ends-list|stray-value-accepted" % kind, "container %r argv=%r" % (r.slots.get(a.slot), w2), [texts[sid]])
    if len(finals) >= 2:
        rep.stat("cut_equivalence_checked")
        if any(f[0] != finals[0][0] for f in finals[1:]):
            d = [f for f in finals if f[0] != finals[0][0]][0]
            rep.viol("%s|cuts-disagree" % kind, "%r -> %r but %r -> %r" % (finals[0][1], finals[0][0], d[1], d[0]), [t for _s, t in c.scenarios[:2]])
    if c.scenarios:
        rep.sample("%s opts=%s init=%r elements=%r argv=%r verdict=%s" % (kind, opts(a), a.init, c.meta["elems"], c.meta["cuts"][-1][1] if c.meta["cuts"] else None, verdict))


def opts(a):
    return ",".join(o for o in ("clear", "sort", "unique", "uniqueerr", "multi", "unset") if getattr(a, o)) + (",sep=" + a.sep if a.sep else "") + \
        (",pairfmt=" + a.pairfmt if a.pairfmt else "") + "".join(",fmtkey=" + f for f in a.fmtkey) + "".join(",fmtval=" + f for f in a.fmtval) + \
        "".join(",fmt=" + f for f in a.formats) + "".join(",fmtpos=%d:%s" % (i, f) for i, f in a.posformats) + \
        "".join(",%s=%s" % (c[0], ":".join(str(x) for x in c[1:-1])) for c in a.checks)


def run(tier, seed, modes=None):
    import sys
    return drv.run(sys.modules[__name__], tier, seed)


def replay(path):
    import sys
    return drv.replay(sys.modules[__name__], path)
