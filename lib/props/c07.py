"""C07 - arguments from a string, a file or the environment equal the same words on argv."""
import itertools

import argh
import argh_driver as drv
import argh_gen as gen
from argh import HF, Use, hx

PROP = "C07"
BATCH = 40
RULE = ("part 1 (quoting round trip): scenario = one list of 1..8 non-empty words (printable ASCII, biased to space, both "
        "quote characters, backslash, dash) escaped with one of 5 strategies (backslash before every special character; "
        "whole word in double quotes with \\\" and \\\\; single quotes for words without ' and \\; per-character random mix; "
        "adjacent quoted segments), joined with 1..3 blanks (optional leading/trailing blanks), split by make_arg_array(): "
        "the words, argc and argv[argc]==nullptr must come back unchanged. Exhaustive sub-run: every single word of length "
        "<= 5 (quick: <= 4) over the alphabet {a, blank, ', \", \\, -} and every pair of words of length <= 2, each with all "
        "strategies. part 2 (source equivalence): scenario = a C01-style configuration with program-file and environment "
        "sources enabled; one valid abstract line is cut into a file part (one or several uses per line, comment and empty "
        "lines, last line with or without newline), an environment part and an argv part; the destinations must equal the "
        "model's fold over file+env+argv in this order (a later value on argv overrides a scalar from the file/environment "
        "without a cardinality error, mandatory arguments may come from any source), and, where no scalar is repeated, the "
        "run with everything on argv; in half of the cases additionally the run in which the command-line part is handed over as "
        "ONE quoted string through evalArgumentString( handler, string, program name) (program name prog, ./prog or with a "
        "path - it selects the argument file and the variable). Variants: value list of a multi-value argument continuing in "
        "the next source, explicit --arg-file argument, nested argument files, name of the environment variable given with "
        "checkEnvVarArgs( name) while the derived variable holds an unknown argument. non-trivial = list with a special character / split over >= 2 sources; distinct = "
        "hash of the joined string resp. (configuration, file, environment, argv).")
ASSUMPTIONS = ["escaping strategies are the quoting forms the ArgString2Array documentation names (quotes removed, text within quotes one value) plus backslash escapes",
               "python model lib/argh.py for part 2"]

SPECIAL = " '\"\\"
ALPHA6 = "a '\"\\-"
WORD_CHARS = "abcXYZ019-_=.,;:/+()!#%&*<>?@[]^{}|~$`" + SPECIAL * 4


def esc_backslash(w, rng=None):
    return "".join("\\" + ch if ch in SPECIAL else ch for ch in w)


def esc_dquote(w, rng=None):
    return '"' + "".join("\\" + ch if ch in '"\\' else ch for ch in w) + '"'


def esc_squote(w, rng=None):
    if "'" in w or "\\" in w:
        return esc_dquote(w)
    return "'" + w + "'"


def esc_mix(w, rng):
    out = []
    for ch in w:
        k = rng.randrange(3)
        if k == 2 and ch in "'\\":
            k = 1
        if k == 0:
            out.append("\\" + ch if ch in SPECIAL else ch)
        elif k == 1:
            out.append('"' + ("\\" + ch if ch in '"\\' else ch) + '"')
        else:
            out.append("'" + ch + "'")
    return "".join(out)


def esc_segments(w, rng):
    # cut into 1..3 segments, each quoted on its own
    if len(w) < 2:
        return esc_dquote(w)
    cuts = sorted(rng.sample(range(1, len(w)), min(len(w) - 1, rng.randint(1, 2))))
    segs = [w[i:j] for i, j in zip([0] + cuts, cuts + [len(w)])]
    return "".join(rng.choice([esc_dquote, esc_squote])(s) for s in segs)


STRATS = [("backslash", esc_backslash), ("dquote", esc_dquote), ("squote", esc_squote), ("mix", esc_mix), ("segments", esc_segments)]


def exhaustive_lists(tier):
    maxlen = 4 if tier == "quick" else 5
    res = []
    for n in range(1, maxlen + 1):
        for t in itertools.product(ALPHA6, repeat=n):
            res.append(["".join(t)])
    short = ["".join(t) for n in (1, 2) for t in itertools.product(ALPHA6, repeat=n)]
    for a in short:
        for b in short:
            res.append([a, b])
    return res


_EX = {}


def ex_lists(tier):
    if tier not in _EX:
        _EX[tier] = exhaustive_lists(tier)
    return _EX[tier]


PER_CASE = 25


def n_ex_cases(tier):
    return (len(ex_lists(tier)) + PER_CASE - 1) // PER_CASE


def n_rand_q(tier):
    return 6000 if tier == "quick" else 200000


def n_src(tier):
    return 8000 if tier == "quick" else 300000


def cases(tier):
    return n_ex_cases(tier) + n_rand_q(tier) + n_src(tier)


def q_scenario(sid, joined):
    # every third string goes through the one-parameter form (program name = first word of the string)
    return "S %s quoting\n%s %s\n" % (sid, "Q1" if (len(joined) + ord(joined[-1:] or "a")) % 3 == 0 else "Q", hx(joined))


def gen_case(seed, idx, tier):
    c = drv.Case(idx)
    rng = drv.case_rng(seed, PROP, idx)
    nex = n_ex_cases(tier)
    if idx < nex + n_rand_q(tier):
        c.meta["part"] = 1
        c.meta["items"] = []
        if idx < nex:
            lists = ex_lists(tier)[idx * PER_CASE:(idx + 1) * PER_CASE]
            c.meta["exh"] = True
            work = [(wl, si) for wl in lists for si in range(len(STRATS))]
        else:
            work = []
            for _ in range(PER_CASE * 2):
                n = rng.randint(1, 8)
                wl = ["".join(rng.choice(WORD_CHARS) for _ in range(rng.choice([1, 1, 2, 3, 5, 9, 20]))) for _ in range(n)]
                work.append((wl, rng.randrange(len(STRATS))))
        for wl, si in work:
            name, fn = STRATS[si]
            parts = [fn(w, rng) for w in wl]
            sep = [" " * rng.randint(1, 3) for _ in parts]
            joined = (" " * rng.choice([0, 0, 1, 2])) + "".join(p + s for p, s in zip(parts, sep))
            if rng.random() < 0.5:
                joined = joined.rstrip(" ")
                # a trailing escaped blank must stay
                if parts[-1].endswith("\\ ") and not joined.endswith("\\ "):
                    joined += " "
            c.meta["items"].append((wl, name, joined))
            c.add("c07", lambda sid, j=joined: q_scenario(sid, j))
        return c
    # ---- part 2
    c.meta["part"] = 2
    prof = dict(kinds=gen.C01_KINDS, nargs=(2, 7), rules=False, flags=[HF["readProgArg"] | HF["envVarArgs"]])
    cfg = gen.gen_config(rng, prof)
    for a in cfg.args:
        if argh.cat_of(a.slot) != "flag" and rng.random() < 0.3:
            a.mandatory = True
            if argh.is_container(a.slot):
                a.init = []
            if argh.kind_of(a.slot) in ("oi", "os"):
                a.init = None
    uses = gen.gen_valid_line(rng, cfg)
    if uses is None:
        c.skip = "no-valid-line"
        return c
    # cut into three parts; optionally repeat a scalar on argv with another value (override)
    k1 = rng.randint(0, len(uses))
    k2 = rng.randint(k1, len(uses))
    fpart, epart, apart = list(uses[:k1]), list(uses[k1:k2]), list(uses[k2:])
    override = False
    scal = [u for u in fpart + epart if argh.cat_of(u.arg.slot) == "scalar"]
    if scal and rng.random() < 0.6:
        u = rng.choice(scal)
        v = gen.gen_valid_elem(rng, u.arg)
        if v is not None:
            apart.insert(rng.randint(0, len(apart)), Use(u.arg, [v]))
            override = True
    def words_of(part):
        w, _st = argh.spell_line(cfg, part, rng, {}, group_flags=False)
        return w

    def quote(w):
        if w == "":
            return '""'
        name, fn = rng.choice(STRATS[:3])
        return fn(w, rng) if any(ch in SPECIAL for ch in w) or rng.random() < 0.2 else w
    try:
        fw_by_use = [argh.spell_line(cfg, [u], rng, {}, group_flags=False)[0] for u in fpart]
        ew = words_of(epart)
        aw = words_of(apart)
    except argh.ModelAbstain:
        c.skip = "not-spellable"
        return c
    # empty words cannot be expressed in a string source (they are dropped by the splitter)
    if any(w == "" for ws in fw_by_use for w in ws) or any(w == "" for w in ew):
        c.skip = "empty-word-in-string-source"
        return c
    # value list of a multi-value argument that continues in the next source: '-M 1 2' at the end of the file (or of the
    # environment variable), the free values '3 4' at the start of the following source - as on one command line
    multi = None
    if rng.random() < 0.3:
        mv = argh.Arg("vi9", "M", "multi-values")
        mv.multi = True
        mv.init = []
        first = [str(rng.randint(0, 99)) for _ in range(rng.randint(1, 3))]
        rest = [str(rng.randint(0, 99)) for _ in range(rng.randint(1, 3))]
        where = rng.choice(["file->env", "file->argv", "env->argv"])
        key = [rng.choice(["-M", "--multi-values"])]
        if where == "file->env":
            fw_by_use.append(key + first)
            ew = rest + ew
        elif where == "file->argv" and not ew:
            fw_by_use.append(key + first)
            aw = rest + aw
        elif where == "env->argv":
            ew = ew + key + first
            aw = rest + aw
        else:
            where = None
        if where:
            cfg.args.append(mv)
            multi = (mv, [int(x) for x in first + rest], where)
    # file text
    lines = []
    i = 0
    while i < len(fw_by_use):
        n = rng.choice([1, 1, 2, 3])
        if multi and multi[2].startswith("file") and i + n >= len(fw_by_use) and i < len(fw_by_use) - 1:
            n = len(fw_by_use) - 1 - i      # the multi-value argument gets the last line for itself
        ws = [w for u in fw_by_use[i:i + n] for w in u]
        lines.append(" ".join(quote(w) for w in ws))
        i += n
        if rng.random() < 0.3 and not (multi and multi[2].startswith("file") and i >= len(fw_by_use)):
            lines.append(rng.choice(["", "# comment -x", "#"]))
    if rng.random() < 0.3:
        lines.insert(0, "# leading comment")
    # nested argument files: a line of the file names another argument file (--arg-file) whose lines are evaluated in place;
    # the lines behind the include are still "read from a file" (can be overridden on argv without a cardinality error)
    nested = None
    if len(lines) >= 2 and rng.random() < 0.3:
        i = rng.randint(0, len(lines) - 2)
        j = rng.randint(i + 1, len(lines) - 1)
        inner_lines = lines[i:j]
        inc = rng.choice(['--arg-file=@HOME@/inner/args.txt', '--arg-file @HOME@/inner/args.txt'])
        lines = lines[:i] + [inc] + lines[j:]
        nested = "\n".join(inner_lines) + rng.choice(["\n", ""])
    last_nl = rng.random() < 0.5
    ftext = "\n".join(lines) + ("\n" if (last_nl and lines) else "")
    etext = " ".join(quote(w) for w in ew)
    # the file is either the default program-argument file or an explicit one named with --arg-file on argv (then it is
    # evaluated where the argument stands: before the rest of argv, after the environment variable)
    explicit = bool(lines) and rng.random() < 0.3 and not multi
    if nested is not None:
        cfg.arg_file_key = "arg-file"
    explicit_env = None
    if explicit:
        cfg.flags &= ~HF["readProgArg"]
        cfg.arg_file_key = "arg-file"
        cfg.files = [("my args/file.txt", ftext)]
        ref = [rng.choice(["--arg-file=@HOME@/my args/file.txt", "--arg-file"])]
        if ref[0] == "--arg-file":
            ref.append("@HOME@/my args/file.txt")
        if ew and rng.random() < 0.4:
            # the file is named inside the environment variable (in front of or behind its other arguments): its values are
            # "from a file" and "from the environment" at once and can still be overridden on argv
            explicit_env = rng.choice(["front", "back"])
            ew = (ref + ew) if explicit_env == "front" else (ew + ref)
            etext = " ".join(quote(w) for w in ew)
        else:
            aw = ref + aw
    else:
        cfg.files = [(".progargs/prog.pa", ftext)] if lines else []
    if nested is not None:
        cfg.files = list(cfg.files) + [("inner/args.txt", nested)]
    cfg.env = [("PROG", etext)] if ew else []
    if ew and rng.random() < 0.3:
        # the name of the variable given explicitly (checkEnvVarArgs( name)) instead of derived from the program file name;
        # PROG then holds something that must not be read
        cfg.env_name = rng.choice(["MY_TOOL_ARGS", "prog_args", "X"])
        cfg.env = [(cfg.env_name, etext), ("PROG", "--no-such-argument-zz")]
        if rng.random() < 0.5:
            cfg.flags &= ~HF["envVarArgs"]
    # expected by the model: fold over file + env + argv, cardinality only for argv uses
    allu = (fpart + epart + apart) if (not explicit or explicit_env == "front") else (epart + fpart + apart)
    try:
        exp = argh.expected(cfg, allu)
    except (argh.ModelAbstain, ValueError):
        c.skip = "model-abstains"
        return c
    if multi:
        exp[multi[0].slot] = multi[1]
    c.meta.update(multi=multi[2] if multi else None, explicit=explicit, nested=nested is not None, explicit_env=explicit_env)
    c.meta.update(cfg=cfg, exp=exp, parts=(fpart, epart, apart), override=override, last_nl=last_nl, nsrc=sum(1 for p in (fpart, epart, apart) if p))
    c.add("c07", lambda sid: argh.scenario_text(sid, "sources", cfg, aw))
    c.meta["kinds"] = ["sources"]
    # the command-line part handed over as ONE string (evalArgumentString): same sources, same result; the program name goes
    # with it (it selects the argument file and the environment variable)
    if not any(w == "" for w in aw) and rng.random() < 0.5:
        astr = " ".join(quote(w) for w in aw)
        pname = rng.choice(["prog", "prog", "/usr/local/bin/prog", "./prog"])
        c.add("c07", lambda sid: argh.scenario_text(sid, "sources-string", cfg, aw, as_string=(astr, pname)))
        c.meta["kinds"].append("sources-string")
    if not override:
        # differential: everything on argv
        cfg2 = cfg
        plain = lambda ws: [w for w in ws if "@HOME@" not in w and w != "--arg-file"]
        fw_all = [w for u in fw_by_use for w in u]
        allw = (fw_all + plain(ew) + plain(aw)) if (not explicit or explicit_env == "front") else (plain(ew) + fw_all + plain(aw))
        files, env = cfg.files, cfg.env

        def text2(sid):
            cfg.files, cfg.env = [], []
            t = argh.scenario_text(sid, "sources-argv", cfg, allw)
            cfg.files, cfg.env = files, env
            return t
        c.add("c07", text2)
        c.meta["kinds"].append("all-argv")
    return c


def judge(c, results, rep):
    if c.meta["part"] == 1:
        for (sid, text), (wl, name, joined) in zip(c.scenarios, c.meta["items"]):
            r = results[sid]
            rep.stat("quoting.lists")
            rep.stat("quoting.strategy." + name)
            if any(ch in SPECIAL for w in wl for ch in w):
                rep.distinct(joined)
            w = r.words
            if w is None:
                rep.viol("quoting|no-result", "no words returned for %r" % joined, [text])
                continue
            got = w["words"][1:]
            if got != wl:
                rep.viol("quoting|%s|words-differ" % name, "string %r -> %r, expected %r" % (joined, got, wl), [text])
            elif w["argc"] != len(wl) + 1 or w["term"] != "null":
                rep.viol("quoting|argc-or-terminator", "string %r argc=%s terminator=%s" % (joined, w["argc"], w["term"]), [text])
            else:
                rep.stat("quoting.roundtrip_ok")
        if c.meta["items"]:
            rep.sample("quoting: %r -> %r" % (c.meta["items"][-1][2], c.meta["items"][-1][0]))
        return
    cfg, exp = c.meta["cfg"], c.meta["exp"]
    fpart, epart, apart = c.meta["parts"]
    rep.stat("sources.cases")
    rep.stat("sources.n_sources_%d" % c.meta["nsrc"])
    if c.meta["override"]:
        rep.stat("sources.override_on_argv")
    if fpart:
        rep.stat("sources.file_last_line_%s_newline" % ("with" if c.meta["last_nl"] else "without"))
    if c.meta.get("multi"):
        rep.stat("sources.multi_value_list_continues_%s" % c.meta["multi"])
    if c.meta.get("explicit"):
        rep.stat("sources.explicit_arg_file_argument")
    if c.meta.get("nested"):
        rep.stat("sources.nested_argument_file")
    if cfg.env_name:
        rep.stat("sources.explicit_environment_variable_name")
    if c.meta.get("explicit_env"):
        rep.stat("sources.arg_file_named_in_environment_variable_" + c.meta["explicit_env"])
    dumps = []
    for k, (sid, text) in enumerate(c.scenarios):
        r = results[sid]
        if k == 0 and c.meta["nsrc"] >= 2:
            rep.distinct(text.split("\n", 1)[1])
        which = c.meta["kinds"][k]
        rep.stat("sources.scenario_" + which.replace("-", "_"))
        if r.status != "ok":
            rep.viol("sources|%s|rejected%s" % (which, "|override" if c.meta["override"] else ""),
                     "%s: %s %s | file=%r env=%r argv part=%r" % (which, r.etype, r.ewhat, cfg.files, cfg.env, apart), [text])
            dumps.append(None)
            continue
        bad = []
        for a in cfg.args:
            got = argh.parse_dump(a.slot, r.slots.get(a.slot, "?"))
            if not argh.values_equal(a.slot, got, exp[a.slot]):
                bad.append((a.slot, got, exp[a.slot]))
        if bad:
            src = "file" if any(u.arg.slot == bad[0][0] for u in fpart) else "env" if any(u.arg.slot == bad[0][0] for u in epart) else "argv"
            rep.viol("sources|%s|wrong-value|from-%s" % (which, src), "%r | file=%r env=%r argv part=%r" % (bad, cfg.files, cfg.env, apart), [text])
        else:
            rep.stat("sources.%s_as_model" % which.replace("-", "_"))
        dumps.append(r.slots)
    for k in range(1, len(dumps)):
        if dumps[0] is not None and dumps[k] is not None and dumps[0] != dumps[k]:
            rep.viol("sources|differs-from-%s" % c.meta["kinds"][k], "sources %r vs %s %r" % (dumps[0], c.meta["kinds"][k], dumps[k]), [t for _s, t in c.scenarios])
    rep.sample("sources: file=%r env=%r argv-part=%r" % (cfg.files, cfg.env, apart))


def finalize(chk):
    chk.coverage["exhaustive_part"] = "all single words of length <= %d over {a, blank, ', \", \\, -} and all pairs of words of length <= 2, x 5 strategies" % (4 if chk.tier == "quick" else 5)


def run(tier, seed, modes=None):
    import sys
    return drv.run(sys.modules[__name__], tier, seed)


def replay(path):
    import sys
    return drv.replay(sys.modules[__name__], path)
