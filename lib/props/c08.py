"""C08 - evaluating through an argument group equals one handler owning all arguments."""
import argh
import argh_driver as drv
import argh_gen as gen
from argh import HF, Arg, Config, Use, hx

import c02
import c03

PROP = "C08"
RULE = ("case = one rule-rich configuration (as C02/C03) partitioned over 1..4 named member handlers of the argument group "
        "(arguments related by a constraint stay in one member, so every rule is local to a member) + a valid abstract line "
        "and, for two thirds of the cases, one rule-breaking mutation of it (all C02 mutation kinds), each spelled 2 (quick) / "
        "4 (thorough) ways. Every argv is executed twice: through Groups::evalArguments on the partitioned definition and "
        "through one Handler that defines all arguments. Oracles: (a) differential - same outcome class and identical "
        "destinations; (b) model - valid lines accepted with the model's values, rule-breaking lines rejected, in BOTH paths. "
        "Extra generators: two multi-value containers in different members with interleaved free values (routing to the "
        "handler that owns the last key), and the same short/long key defined in two members (must be refused). "
        "non-trivial = >= 2 members and >= 2 uses; distinct = hash of (partitioned configuration, argv).")
ASSUMPTIONS = c03.ASSUMPTIONS + ["constraints only reference arguments of the same member handler"]

PROFILE = dict(c03.PROFILE)
PROFILE["flags"] = [0]


def cases(tier):
    return 12000 if tier == "quick" else 150000


def partition(rng, cfg):
    """assign a.member so that constraint-related arguments share a member; returns number of members"""
    parent = {id(a): id(a) for a in cfg.args}

    def find(x):
        while parent[x] != x:
            parent[x] = parent[parent[x]]
            x = parent[x]
        return x

    def union(x, y):
        parent[find(x)] = find(y)
    for a in cfg.args:
        for b in a.requires + a.excludes:
            union(id(a), id(b))
    for _k, mem, _m in cfg.constraints:
        for m in mem[1:]:
            union(id(mem[0]), id(m))
    comps = {}
    for a in cfg.args:
        comps.setdefault(find(id(a)), []).append(a)
    nm = rng.randint(1, min(4, len(comps)))
    groups = list(comps.values())
    rng.shuffle(groups)
    for gi, g in enumerate(groups):
        m = gi if gi < nm else rng.randrange(nm)
        for a in g:
            a.member = m
    cfg.constraints = [(k, mem, mem[0].member) for k, mem, _m in cfg.constraints]
    return nm


def gen_case(seed, idx, tier):
    rng = drv.case_rng(seed, PROP, idx)
    c = drv.Case(idx)
    mode = idx % 10
    if mode == 8:
        return gen_interleave(c, rng)
    if mode == 9:
        return gen_dupkey(c, rng) if rng.random() < 0.6 else gen_subgroup(c, rng)
    target = c02.MUTATIONS[(idx // 10) % len(c02.MUTATIONS)]
    prof = dict(PROFILE)
    force = {"differ": "differ", "disjoint": "disjoint", "all_of": "all_of", "two-of": rng.choice(["any_of", "one_of"]),
             "one_of-none": "one_of", "excluded": "excludes", "missing-required": "requires", "drop-mandatory": "mandatory"}.get(target)
    if force and rng.random() < 0.8:
        prof["force"] = force
    cfg = gen.gen_config(rng, prof)
    uses = gen.gen_valid_line(rng, cfg)
    if uses is None:
        c.skip = "no-valid-line"
        return c
    nm = partition(rng, cfg)
    # flags of the group object (handed on to every member handler); the single handler gets the same ones
    # except 'list argument groups', which only exists in a group
    # (hfEndValues, hfArgHidden and hfListArgVar cannot be used with more than one member on the unchanged tree: every member
    # adds the same built-in argument and the cross-check refuses the second one - an observation outside C08, see DESIGN.md)
    cfg.group_flags = rng.choice([0, 0, HF["listArgGroups"], HF["listArgGroups"] | HF["usageCont"], HF["usageCont"],
                                  HF["verbose"], HF["usageHidden"] | HF["listArgGroups"]])
    cfg.flags = cfg.group_flags
    cfg.interleave = rng.random() < 0.5      # definition order: member by member, or all handlers first and arguments interleaved
    names = ["alpha", "beta", "gamma", "delta"][:nm]
    lines = [("valid", uses, None, "")]
    if mode < 6:
        kinds = list(c02.MUTATIONS)
        rng.shuffle(kinds)
        kinds.insert(0, target)
        for k in kinds:
            if k == "ambiguous-abbr" and (cfg.group_flags & HF["listArgGroups"]):
                continue      # the built-in --list-arg-groups only exists in the first member, not in the single handler
            r = c02.mutate(rng, cfg, uses, k)
            if r is None:
                continue
            m, ins = r
            if ins is None:
                v, why = argh.valid(cfg, m)
                if v is not False:
                    continue
                if k == "missing-value" and why != "missing-value":
                    continue
            else:
                why = k
            lines.append((k, m, ins, why))
            break
    c.meta.update(cfg=cfg, nm=nm, runs=[])
    try:
        exp = argh.expected(cfg, uses)
    except (argh.ModelAbstain, ValueError):
        c.skip = "model-abstains"
        return c
    c.meta["exp"] = exp
    for kind, m, ins, why in lines:
        for s in range(2 if tier == "quick" else 4):
            style = dict(c02.STYLES[(s + idx) % len(c02.STYLES)])
            try:
                if ins is None:
                    words, _st = argh.spell_line(cfg, m, rng, style)
                else:
                    pos, extra = ins
                    w1, _a = argh.spell_line(cfg, m[:pos], rng, style)
                    w2, _b = argh.spell_line(cfg, m[pos:], rng, style)
                    words = w1 + extra + w2
            except argh.ModelAbstain:
                continue
            cfg.groups = None
            sid1 = c.add("c08", lambda sid, w=words: argh.scenario_text(sid, "single", cfg, w))
            cfg.groups = [(n, 0) for n in names]
            astr = None
            if rng.random() < 0.25 and all(w != "" for w in words):
                # the group evaluated through evalArgumentString( string, program name): same words as one quoted string
                astr = (" ".join(quote_word(rng, w) for w in words), rng.choice(["prog", None, "/opt/bin/prog"]))
            sid2 = c.add("c08", lambda sid, w=words: argh.scenario_text(sid, "group-string" if astr else "group", cfg, w, as_string=astr))
            cfg.groups = None
            c.meta["runs"].append((kind, why, words, sid1, sid2, m))
    return c


def quote_word(rng, w):
    import c07
    name, fn = rng.choice(c07.STRATS[:3])
    return fn(w, rng) if any(ch in c07.SPECIAL for ch in w) or rng.random() < 0.2 else w


def gen_interleave(c, rng):
    """two multi-value containers in different members, free values interleaved"""
    cfg = Config(0)
    kinds = rng.choice([("vi", "vi"), ("vi", "vs"), ("vs", "vi"), ("li", "vi")])
    a = Arg(kinds[0] + "0", "v", "values")
    b = Arg(kinds[1] + "1", "w", "words")
    a.multi = b.multi = True
    a.init, b.init = [], []
    a.member, b.member = (0, 1) if rng.random() < 0.5 else (1, 0)
    f = Arg("b0", "f", "flag")
    f.init = "0"
    f.member = rng.randrange(2)
    cfg.args = [a, b, f] if rng.random() < 0.5 else [b, a, f]
    seq = []
    exp = {a.slot: [], b.slot: [], "b0": False}
    words = []
    order = [a, b] if rng.random() < 0.5 else [b, a]
    if rng.random() < 0.5:
        order.append(order[0])
    for x in order:
        n = rng.randint(1, 3)
        vals = [gen.gen_text(rng, argh.elem_of(x.slot), elem=True, small=True) for _ in range(n)]
        vals = [v for v in vals if not v.startswith("-")] or ["1"]
        words.append("-" + x.short if rng.random() < 0.5 else "--" + x.long)
        words += vals
        exp[x.slot] = exp[x.slot] + [argh.conv(argh.elem_of(x.slot), v) for v in vals]
        if rng.random() < 0.3 and not exp["b0"]:
            words.append("-f")
            exp["b0"] = True
        # a flag in between ends nothing: further free values would be ambiguous -> none generated after a flag
    kind = "interleave"
    if rng.random() < 0.2:
        # a positional argument in one member, an open multi-value list in another: one handler gives the free values to the
        # list; the group asks the members in order, so a positional argument in an EARLIER member takes them (known finding)
        pos = Arg("s9", None, None, spec="-")
        pos.init = "none"
        pos.member = rng.randrange(2)
        b.member = 1 - pos.member
        b.multi = True
        cfg.args = [b, pos] if rng.random() < 0.5 else [pos, b]
        n = rng.randint(2, 3)
        vals = [gen.gen_text(rng, argh.elem_of(b.slot), elem=True, small=True) for _ in range(n)]
        vals = [v for v in vals if not v.startswith("-")] or ["1", "2"]
        if len(vals) < 2:
            vals.append("3")
        words = ["-" + b.short] + vals
        exp = {b.slot: [argh.conv(argh.elem_of(b.slot), v) for v in vals], "s9": "none"}
        kind = "positional-vs-open-list"
    elif rng.random() < 0.4:
        # stale "last argument": a non-multi-value argument of one member is followed by a free value; the other member's
        # multi-value argument was used before -> one handler rejects the free value (unknown), so must the group
        a.multi = False
        x, y = b, a
        words = ["-" + x.short, "1", "2", "-" + y.short, "3", "4"]
        if rng.random() < 0.5:
            a.member, b.member = b.member, a.member
        kind = "stale-last-arg"
    gfl = [0, 0]
    if kind == "interleave" and rng.random() < 0.3:
        # the open multi-value list of one member is closed by something that lives in the OTHER member - the --endvalues
        # argument (handler flag) or a sub-group argument - and a free value follows: it belongs to the positional argument
        lst = Arg("vi0", "l", "list")
        lm = rng.randrange(2)           # the list in the first or in the second member, the closing key in the other one
        lst.multi, lst.init, lst.member = True, [], lm
        pos = Arg("s9", None, None, spec="-")
        pos.init, pos.member = "none", rng.randrange(2)
        oth = Arg("i0", "n", "num")
        oth.init, oth.member = "0", 1 - lm
        cfg.args = [lst, oth, pos] if rng.random() < 0.5 else [pos, lst, oth]
        vals = [str(rng.randint(0, 99)) for _ in range(rng.randint(1, 3))]
        free = rng.choice(["zz", "out.txt", "7"])
        exp = {"vi0": [int(v) for v in vals], "s9": free, "i0": 0}
        if rng.random() < 0.5:
            cfg.flags = HF["endValues"]
            gfl[1 - lm] = HF["endValues"]
            words = [rng.choice(["-l", "--list"])] + vals + ["--endvalues", free]
            kind = "list-closed-by-endvalues-of-other-member"
        else:
            sx = Arg("i5", "x", None)
            sx.init = "0"
            cfg.subgroup = ("S,sub", 0, [sx])
            cfg.subgroup_member = 1 - lm
            words = [rng.choice(["-l", "--list"])] + vals + [rng.choice(["-S", "--sub"]), "-x", "7", free]
            exp["i5"] = 7
            kind = "list-closed-by-sub-group-of-other-member"
        if rng.random() < 0.3:
            # one free value too many for the positional argument: refused by both
            words.append("extra")
            kind += "+too-many"
    c.meta.update(cfg=cfg, nm=2, exp=exp, runs=[], interleave=True)
    cfg.groups = None
    sid1 = c.add("c08", lambda sid: argh.scenario_text(sid, "single", cfg, words))
    cfg.groups = [("alpha", gfl[0]), ("beta", gfl[1])]
    sid2 = c.add("c08", lambda sid: argh.scenario_text(sid, "group", cfg, words))
    cfg.groups = None
    c.meta["runs"].append((kind, "free-value-without-owner", words, sid1, sid2, None))
    return c


def gen_subgroup(c, rng):
    """a sub-group argument (its own handler with -y / -z) with a rule attached - mandatory or a cardinality - defined in one
    member of a group resp. in the single handler: both must judge every line the same way and store the same values"""
    rule = rng.choice(["mand", "card=range:2:3", "card=exact:2", "card=max:1", ""])
    nm = rng.randint(1, 3)
    owner = rng.randrange(nm)
    names = ["alpha", "beta", "gamma"][:nm]
    sg = ("SG %s 0 %s" % (hx("g,group"), rule)).rstrip() + "\nA vi1 %s %s\nA s1 %s %s\nSE\n" % (hx("y"), hx("d"), hx("z,zone"), hx("d"))
    plain = ["A i0 %s %s\n" % (hx("n,num"), hx("d")), "A b0 %s %s\n" % (hx("a"), hx("d")), "A s0 %s %s mand\n" % (hx("name"), hx("d"))]
    where = [rng.randrange(nm) for _ in plain]
    uses = rng.choice([0, 1, 1, 2, 2, 3, 4])
    words = []
    extra = [["-a"], ["-n", "5"]]        # each plain argument at most once
    for u in range(uses):
        words += [rng.choice(["-g", "--group"]), "-y", str(10 + u)] + (["--zone", "q%d" % u] if (u == 0 and rng.random() < 0.5) else [])
        if rng.random() < 0.4 and extra:
            words += extra.pop(rng.randrange(len(extra)))
    words = (["--name", "x"] + words) if rng.random() < 0.85 else words
    lim = {"mand": (1, 99), "card=range:2:3": (2, 3), "card=exact:2": (2, 2), "card=max:1": (0, 1), "": (0, 99)}[rule]
    # a cardinality only speaks about an argument that is used; 'mandatory' about the unused one
    valid = (lim[0] <= uses <= lim[1] or (uses == 0 and rule != "mand")) and any(w.startswith("--name") for w in words)
    single = "".join(plain) + sg
    body = ""
    for m in range(nm):
        body += "G %s 0\n" % hx(names[m]) + "".join(p for p, w in zip(plain, where) if w == m) + (sg if m == owner else "")
    argv = " ".join(hx(w) for w in ["prog"] + words)
    sid1 = c.add("c08", lambda sid: "S %s single\nF 0\n%sV %s\nR\n" % (sid, single, argv))
    sid2 = c.add("c08", lambda sid: "S %s group\nGF 0\n%sV %s\nR\n" % (sid, body, argv))
    c.meta.update(subgroup=(rule, uses, valid, words, sid1, sid2), runs=[], nm=nm)
    return c


def gen_dupkey(c, rng):
    """the same key in two member handlers must be refused"""
    s1, l1 = rng.choice("abc"), rng.choice(["in", "input", "out"])
    kind = rng.choice(["same-short", "same-long", "same-both", "mismatch-pair", "distinct"])
    if kind == "same-short":
        k1, k2 = "%s,%s" % (s1, l1), rng.choice([s1, "%s,other" % s1])
    elif kind == "same-long":
        k1, k2 = "%s,%s" % (s1, l1), rng.choice([l1, "x,%s" % l1])
    elif kind == "same-both":
        k1, k2 = "%s,%s" % (s1, l1), "%s,%s" % (l1, s1)
    elif kind == "mismatch-pair":
        k1, k2 = "%s,%s" % (s1, l1), "%s,%s" % (s1, "zzz")
    else:
        k1, k2 = "%s,%s" % (s1, l1), "x,xyz"
    if rng.random() < 0.15:
        return gen_dupkey_handler_flag(c, rng)
    order = rng.choice(["sequential", "later-handler-first", "three-handlers"])
    A, B, C = "G %s 0\n" % hx("alpha"), "G %s 0\n" % hx("beta"), "G %s 0\n" % hx("gamma")
    d1, d2 = "AT i0 %s %s\n" % (hx(k1), hx("d")), "AT i1 %s %s\n" % (hx(k2), hx("d"))
    # one of the two definitions may be a sub-group argument (a key like any other)
    sgv = rng.choice(["", "", "first", "second"])
    if sgv == "first":
        d1 = "SGT i0 %s\n" % hx(k1)
    elif sgv == "second":
        d2 = "SGT i1 %s\n" % hx(k2)
    if order == "sequential":
        body = A + d1 + B + d2
    elif order == "later-handler-first":
        # both handlers exist, the later created one gets its argument first
        body = A + B + d1 + A + d2
    else:
        body = A + B + C + "AT i2 %s %s\n" % (hx("q,quite-different"), hx("d")) + B + d1 + A + d2
    gflags = rng.choice([0, 0, HF["listArgGroups"], HF["usageHidden"], HF["listArgGroups"] | HF["usageCont"], HF["verbose"]])
    text = lambda sid: "S %s dupkey\nGF %d\n%sV %s\nR\n" % (sid, gflags, body, hx("prog"))
    sid = c.add("c08", text)
    c.meta.update(dup=(kind + "/" + order + ("/sub-group-" + sgv if sgv else ""), k1, k2, sid), runs=[], nm=2)
    return c


def gen_dupkey_handler_flag(c, rng):
    """the second key comes from a handler flag of a later member (-h / --help are defined inside the Handler constructor,
    before the new handler is stored in the group): refused like any other duplicate"""
    v = rng.choice(["short-vs-arg", "long-vs-arg", "long-vs-long", "short-vs-short", "distinct"])
    A0 = "G %s 0\n" % hx("alpha")
    if v == "short-vs-arg":
        body, k1, k2 = A0 + "AT i0 %s %s\n" % (hx("h,host"), hx("d")) + "G %s %d\n" % (hx("beta"), HF["helpShort"]), "h,host", "-h (hfHelpShort)"
    elif v == "long-vs-arg":
        body, k1, k2 = A0 + "AT i0 %s %s\n" % (hx("x,help"), hx("d")) + "G %s %d\n" % (hx("beta"), HF["helpLong"]), "x,help", "--help (hfHelpLong)"
    elif v == "long-vs-long":
        body, k1, k2 = "G %s %d\n" % (hx("alpha"), HF["helpLong"]) + "G %s %d\n" % (hx("beta"), HF["helpLong"]), "--help (hfHelpLong)", "--help (hfHelpLong)"
    elif v == "short-vs-short":
        body = "G %s %d\n" % (hx("alpha"), HF["helpShort"]) + "AT i0 %s %s\n" % (hx("i,int"), hx("d")) + "G %s %d\n" % (hx("beta"), HF["helpShort"])
        k1, k2 = "-h (hfHelpShort)", "-h (hfHelpShort)"
    else:
        body, k1, k2 = A0 + "AT i0 %s %s\n" % (hx("h,host"), hx("d")) + "G %s %d\n" % (hx("beta"), HF["helpLong"]), "h,host", "--help (hfHelpLong)"
    if rng.random() < 0.5 and v != "distinct":
        body = "G %s 0\nAT i2 %s %s\n" % (hx("gamma"), hx("q,quite-different"), hx("d")) + body
    text = lambda sid: "S %s dupkey\nGF 0\n%sV %s\nR\n" % (sid, body, hx("prog"))
    sid = c.add("c08", text)
    c.meta.update(dup=(("distinct" if v == "distinct" else "handler-flag") + "/" + v, k1, k2, sid), runs=[], nm=2)
    return c


def lookup_interference(cfg, nm, words):
    """True iff some long key word of argv is resolved differently by a per-member lookup (members asked in order,
    each with its own exact/abbreviation search) than by one lookup over all arguments"""
    if not cfg.abbr_enabled():
        return False
    longs = [(a.long, a.member) for a in cfg.args if a.long]
    # built-in arguments of the group flags live in the first member handler (--list-arg-groups)
    longs += [(b, 0) for b in cfg.builtin_longs()]
    for w in words:
        if not w.startswith("--") or len(w) < 4:
            continue
        key = w[2:].split("=", 1)[0]
        exact = [m for l, m in longs if l == key]
        starts = [(l, m) for l, m in longs if l.startswith(key)]
        if exact:
            single = ("arg", key)
        elif len(starts) == 1:
            single = ("arg", starts[0][0])
        elif len(starts) >= 2:
            single = ("ambiguous",)
        else:
            single = ("unknown",)
        group = ("unknown",)
        for m in range(nm):
            mine = [l for l, mm in starts if mm == m]
            if key in mine:
                group = ("arg", key)
                break
            if len(mine) == 1:
                group = ("arg", mine[0])
                break
            if len(mine) >= 2:
                group = ("ambiguous",)
                break
        if group != single:
            return True
    return False


def judge(c, results, rep):
    if "dup" in c.meta:
        kind, k1, k2, sid = c.meta["dup"]
        r = results[sid]
        rep.stat("dupkey." + kind)
        kind = kind.split("/")[0]
        if kind == "handler-flag":
            # the member handler cannot even be created: the constructor that defines -h / --help throws
            if r.status != "setup":
                rep.viol("dupkey|handler-flag|accepted", "keys %r and %r accepted in two member handlers" % (k1, k2), [c.scenarios[0][1]])
            elif "already" not in (r.ewhat or ""):
                rep.viol("dupkey|setup-failed", "%s %s" % (r.etype, r.ewhat), [c.scenarios[0][1]])
            rep.distinct(c.scenarios[0][1])
            return
        if r.status == "setup":
            rep.viol("dupkey|setup-failed", "%s %s" % (r.etype, r.ewhat), [c.scenarios[0][1]])
            return
        refused = "i1" in r.addfails
        if kind == "distinct":
            if refused or "i0" in r.addfails:
                rep.viol("dupkey|conflict-free-refused", "keys %r / %r in two members refused" % (k1, k2), [c.scenarios[0][1]])
        elif not refused:
            rep.viol("dupkey|%s|accepted" % kind, "keys %r and %r accepted in two member handlers" % (k1, k2), [c.scenarios[0][1]])
        rep.distinct(c.scenarios[0][1])
        return
    if "subgroup" in c.meta:
        rule, uses, valid, words, sid1, sid2 = c.meta["subgroup"]
        r1, r2 = results[sid1], results[sid2]
        tx = [t for _s, t in c.scenarios]
        rep.stat("subgroup.rule_%s" % (rule.split("=")[-1].split(":")[0] or "none"))
        rep.stat("subgroup.line_%s" % ("valid" if valid else "rule-break"))
        rep.distinct(tx[1])
        for nme, r in (("single", r1), ("group", r2)):
            if r.status == "setup":
                rep.viol("subgroup|setup|%s" % nme, "%s %s" % (r.etype, r.ewhat), tx)
                return
            if valid and r.status != "ok":
                rep.viol("subgroup|%s-rejects-valid" % nme, "rule %r, %d uses: %s %s | argv=%r" % (rule, uses, r.etype, r.ewhat, words), tx)
            if not valid and r.status == "ok":
                rep.viol("subgroup|%s-accepts|%s" % (nme, "mandatory" if rule == "mand" else "cardinality" if rule else "mandatory-plain"),
                         "rule %r on the sub-group argument, %d uses, accepted | argv=%r" % (rule, uses, words), tx)
        if r1.status == "ok" and r2.status == "ok" and r1.slots != r2.slots:
            rep.viol("subgroup|values-differ", "single %r | group %r | argv=%r" % (r1.slots, r2.slots, words), tx)
        return
    cfg, exp = c.meta["cfg"], c.meta["exp"]
    texts = dict(c.scenarios)
    rep.stat("members_%d" % c.meta["nm"])
    for kind, why, words, sid1, sid2, uses in c.meta["runs"]:
        r1, r2 = results[sid1], results[sid2]
        rep.stat("line." + ("valid" if kind == "valid" else kind if kind in ("interleave", "positional-vs-open-list") or kind.startswith("list-closed") else "rule-break"))
        if kind == "positional-vs-open-list":
            ok1, ok2 = r1.status == "ok", r2.status == "ok"
            if not ok1 or argh.parse_dump("s9", r1.slots.get("s9", "?")) != "none":
                rep.viol("single-rejects-valid|%s" % kind, "single: %s %s %r argv=%r" % (r1.status, r1.ewhat, r1.slots, words), [texts[sid1], texts[sid2]])
            elif ok1 != ok2 or r1.slots != r2.slots:
                rep.viol("group-dispatch|positional-in-earlier-member-takes-free-values", "single %r | group %s %s %r | argv=%r" % (
                    r1.slots, r2.status, r2.ewhat, r2.slots, words), [texts[sid1], texts[sid2]])
            else:
                rep.stat("positional_vs_open_list_same")
            continue
        if kind not in ("valid", "interleave") and not kind.startswith("list-closed"):
            rep.stat("break." + kind)
        if c.meta["nm"] >= 2 and len(words) >= 2:
            rep.distinct(texts[sid2].split("\n", 1)[1])
        tx = [texts[sid1], texts[sid2]]
        if c.meta["nm"] >= 2 and lookup_interference(cfg, c.meta["nm"], words):
            # one root cause, one key: the group asks its members one after the other, each looks the key up among its own
            # arguments only (exact key of a later member loses against an abbreviation in an earlier one, ambiguity
            # across members is not seen)
            rep.stat("lookup_interference_lines")
            ok1, ok2 = r1.status == "ok", r2.status == "ok"
            if ok1 != ok2 or (ok1 and r1.slots != r2.slots):
                rep.viol("group-lookup|per-member-abbreviation", "single: %s %s %r | group: %s %s %r | argv=%r" % (
                    r1.status, r1.ewhat, r1.slots, r2.status, r2.ewhat, r2.slots, words), tx)
            continue
        if r1.status == "setup" or r2.status == "setup":
            rep.viol("setup|%s" % ("group" if r2.status == "setup" else "single"), "%s %s | %s %s" % (r1.etype, r1.ewhat, r2.etype, r2.ewhat), tx)
            continue
        ok1, ok2 = r1.status == "ok", r2.status == "ok"
        want_ok = kind in ("valid", "interleave") or (kind.startswith("list-closed") and not kind.endswith("+too-many"))
        # (b) model
        if want_ok and not ok2:
            rep.viol("group-rejects-valid|%s" % kind, "group: %s %s | single: %s | argv=%r" % (r2.etype, r2.ewhat, r1.status, words), tx)
        if not want_ok and ok2:
            rep.viol("group-accepts|%s|%s" % (kind, why), "rule-breaking line accepted through the group (single handler: %s %s) | uses=%r argv=%r" % (
                r1.status, r1.ewhat, uses, words), tx)
        if want_ok and not ok1:
            rep.viol("single-rejects-valid|%s" % kind, "single: %s %s | argv=%r" % (r1.etype, r1.ewhat, words), tx)
        if not want_ok and ok1:
            rep.viol("single-accepts|%s|%s" % (kind, why), "rule-breaking line accepted by the single handler | argv=%r" % (words,), tx)
        # (a) differential
        if ok1 != ok2:
            rep.stat("outcome_class_differs")
            continue
        if ok1 and ok2:
            if r1.slots != r2.slots:
                diff = {k: (r1.slots.get(k), r2.slots.get(k)) for k in set(r1.slots) | set(r2.slots) if r1.slots.get(k) != r2.slots.get(k)}
                rep.viol("values-differ|%s" % kind, "single vs group: %r | argv=%r" % (diff, words), tx)
            else:
                rep.stat("single_equals_group")
            if want_ok:
                bad = []
                for slot, ev in exp.items():
                    if slot == "tu9":
                        continue      # the tuple added by the tuple-short mutation is unused on the valid lines
                    got = argh.parse_dump(slot, r2.slots.get(slot, "?"))
                    if not argh.values_equal(slot, got, ev):
                        bad.append((slot, got, ev))
                if bad:
                    rep.viol("group-wrong-value|%s" % kind, "%r | argv=%r" % (bad, words), tx)
                else:
                    rep.stat("group_values_as_model")
        else:
            rep.stat("both_reject")
    if c.meta["runs"]:
        k = c.meta["runs"][-1]
        rep.sample("members=%d line=%s argv=%r" % (c.meta["nm"], k[0], k[2]))


def run(tier, seed, modes=None):
    import sys
    return drv.run(sys.modules[__name__], tier, seed)


def replay(path):
    import sys
    return drv.replay(sys.modules[__name__], path)
