"""C09 - independent argument handlers can be used concurrently.

ThreadSanitizer (reports counted from the log files, see lib/tsan.py) + sequential-equivalence
oracle in harness/conc_argh.cpp; second pass in the asan flavour with a sleeping hook inside
Tokenizer::convChar2String, which turns the use of a wrong separator into an observable result.
"""
import tsan

SPEC = dict(
    prop="C09", level="exploration", default_harness="conc_argh",
    harnesses={"conc_argh": dict(name="conc_argh", sources=["conc_argh.cpp"], with_lib=True)},
    rule=("case = T in {2,4,8,16} threads (idx % 4), perturbation level (idx / 4) % 3, every thread with its own "
          "scenario drawn from (seed, idx, thread): one of 16 kinds (vector<int>, vector<string> + formats, map with "
          "list and pair separators, requiresArg, excludes, all_of/any_of/one_of, checks lower/upper/range/values/"
          "min-/maxLength, usage into string streams with hfUsageCont, --list-arg-vars + verbose + summary, "
          "tuple/array, bitset, set + format, hfEnvVarArgs with a different program file name argv[0] = tool<k> per thread and variables TOOL0..7 set before the threads start, addArgumentFile with the same or neighbouring argument files - two of them with a nested file - written before the threads start, the end-of-value-list argument registered under a different key per thread behind a multi-value list; in a third of the cases the first four threads run the same scenario kind with different parameters, in a fifth of the cases up to four threads print a usage at the same time, every case starts without the library-internal Groups singleton) with consecutive list separators from , ; : + | / # so that the threads "
          "of a case differ in the separator / constraint list / value list the library has to split; each thread "
          "repeats construct Handler -> addArgument... -> evalArguments -> dump `iters` times on destination "
          "variables on its own stack. Oracle: the dump (outcome incl. exception type and text, all destination "
          "values, both output streams) equals the dump of the same scenario run alone on the main thread before "
          "the threads start; ThreadSanitizer reports with a Celma frame in BOTH access stacks (keys "
          "tsan|global:<variable>, tsan|heap:<allocating Celma function>, else tsan|<funcA>|<funcB> of the innermost "
          "Celma frames, see lib/tsan.py); a mismatch is keyed sequential-equivalence|<container-values|constraints|"
          "checks|output>. Mode race is run `repeat` times per configuration with different hook delays; mode "
          "corrupt = same scenarios in the asan flavour with 1us..1ms sleeps inside Tokenizer::convChar2String. "
          "distinct_nontrivial = distinct (T, level, scenario tuple) hashes; every case is non-trivial (>= 2 threads "
          "with different scenarios)."),
    assumptions=["g++ 12 ThreadSanitizer / AddressSanitizer runtimes; schedules are sampled (TSan's happens-before "
                 "analysis extends a run to all schedules with the same synchronisation order)",
                 "sequential run on the main thread is the reference (sequential-equivalence, not a model of the "
                 "documented results - that is C01..C08's job); it is run twice and must be deterministic",
                 "no stdio and no shared harness state inside the threads; the hook uses relaxed atomics only"],
    modes=[
        dict(name="race", flavour="tsan", min_celma_stacks=2, eval_stat="evaluations",
             cases={"quick": 48, "thorough": 480}, chunk={"quick": 4, "thorough": 8},
             repeat={"quick": 3, "thorough": 5}, parallel={"quick": 3, "thorough": 4},
             args={"iters": {"quick": 150, "thorough": 400}},
             require_stats=["evaluations_T2", "evaluations_T16", "hook_hits_tokenizer.conv_char2string",
                            "scenarios_expected_ok", "scenarios_expected_throw"],
             forbid_stats=["selfcheck_sequential_not_deterministic"], timeout={"quick": 1200, "thorough": 3600}),
        dict(name="corrupt", flavour="asan", eval_stat="evaluations",
             cases={"quick": 96, "thorough": 1440}, workers={"quick": 4, "thorough": 6},
             args={"iters": {"quick": 60, "thorough": 150}},
             require_stats=["evaluations_T2", "evaluations_T16", "hook_hits_tokenizer.conv_char2string", "hook_window_overlaps"],
             forbid_stats=["selfcheck_sequential_not_deterministic"], timeout={"quick": 1200, "thorough": 3600}),
    ],
)


def run(tier, seed, modes=None):
    return tsan.run_spec(SPEC, tier, seed, modes)


def replay(path):
    return tsan.replay(SPEC, path)
