"""C10 - fixed-capacity string never touches memory outside itself and stays well-formed."""
import runner

_SOURCES = ["fixed_string.cpp"] + ["fixed_string_g%02d.cpp" % g for g in range(1, 11)]

# allocations above 512 MB are refused by the ASan allocator: a library that builds a temporary of
# "count" characters for a 4-character string is reported instead of eating the memory of the machine
_ENV = {"ASAN_OPTIONS": "abort_on_error=1:detect_leaks=0:strict_string_checks=1:"
                        "detect_stack_use_after_return=1:allocator_may_return_null=1:"
                        "handle_abort=0:symbolize=1:max_allocation_size_mb=512:quarantine_size_mb=48"}

HARNESS = dict(name="fixed_string", sources=_SOURCES, with_lib=False, cflags=["-g1"], deps=["fixed_string_rig.hpp"])

SPEC = dict(
    prop="C10", level="exploration", default_harness="fixed_string",
    harnesses={"fixed_string": HARNESS},
    rule=("a call = (capacity L, placement, content before incl. stale bytes behind the terminator, public member/"
          "overload, argument values, source text). The FixedString<L> under test lives alone in an exact-size malloc "
          "block (ASan red zones on both sides) or between two 32-byte canary arrays; every source operand (C string, "
          "std::string object and its characters - SSO tail poisoned -, FixedString<S> for S=L, S<L, S>L, "
          "initializer_list array, copy() destination) is an exact-size heap block. After every call: length() <= L, "
          "c_str()[length()] == 0, strlen(c_str()) == length() unless a NUL was stored, canaries intact; std::exception "
          "from members that are not noexcept is a legal outcome. c10exh: L in 1..4, every content over {a,b}, 3 "
          "placements/stale variants, every public member and overload (operator[] / iterator [] with invalid index "
          "excluded: documented UB; foreign or reversed *source* iterator ranges excluded), every combination of the "
          "argument grid {0,1,len-1,len,len+1,L-1,L,L+1,2L,2^31,2^63,npos-1,npos} (source-relative arguments: "
          "{0,1,slen-1,slen,slen+1,2slen+3,2^31,2^63,npos-1,npos}, reduced to 6 values in the quick tier) and sources "
          "of length 0,1,L-1,L,L+1,4L; distinct_nontrivial counts the enumerated calls (distinct by construction). "
          "c10hist: histories of 200 random operations (60 for L > 60000) on L in {1,2,3,4,5,7,8,15,16,31,254,255,"
          "256,257,1000,65534..65537}, arguments drawn from the same grid or below 2L+3; distinct = hash of the history."),
    assumptions=["g++ 12 ASan/UBSan runtimes and -D_GLIBCXX_ASSERTIONS; max_allocation_size_mb=512",
                 "libstdc++ layout of std::string (SSO buffer inside the object) and std::initializer_list (checked at start-up)",
                 "states are prepared through assign()/clear() of the class itself (verified after preparation)"],
    modes=[
        dict(name="c10exh", flavour="asan", cases=39648, exhaustive=True, eval_stat="calls",
             args={"gridlevel": {"quick": 1, "thorough": 2}}, env=_ENV, timeout=3600,
             require_stats=["op.insert_idx_count_ch", "op.swap", "op.iterator_edge_forward.0"]),
        dict(name="c10hist", flavour="asan", cases={"quick": 16000, "thorough": 800000}, eval_stat="calls",
             args={"ops": 200}, env=_ENV, timeout=3600),
    ],
)


def run(tier, seed, modes=None):
    return runner.run_spec(SPEC, tier, seed, modes)


def replay(path):
    return runner.replay(SPEC, path)
