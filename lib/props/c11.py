"""C11 - fixed-capacity string equals std::string cut off at the capacity."""
import runner

import c10

SPEC = dict(
    prop="C11", level="exploration", default_harness="fixed_string",
    harnesses={"fixed_string": c10.HARNESS},
    rule=("a call = (capacity L, content, public member/overload, in-domain arguments, source text) applied in lock "
          "step to FixedString<L> and to a reference std::string; mutators are compared by content with the reference "
          "result cut at L (surplus characters dropped), observers by value (compare by sign), == and != must be "
          "complementary. Domain: positions <= length, source positions <= source length, counts arbitrary (npos, "
          "2^63), (pointer,count) counts <= strlen, iterators of the same object with first <= last. Documented "
          "deviations are followed: front()/back() of an empty string give NUL, erase(cend()) erases nothing and "
          "returns end(), at(idx > length) throws std::out_of_range. Recorded but not judged (header silent; counters "
          "undoc.*): at(length()), contains(\"\"), searches for an empty string or with pos >= length(), insert at "
          "cend(), iterator replace with an empty range or an empty replacement, pop_back() on empty. c11exh: L in "
          "1..4, every content over {a,b,c}, every operation, every in-domain argument combination, every source over "
          "{a,b,c} up to L+2 / 3 / 2 characters (1 / 2 / 3-4 further arguments; one more in the thorough tier) plus "
          "sources of L+1, L+2, 2L+3 characters. c11eq: all pairs of contents for L <= 3 against S = L, S < L, S > L. "
          "c11hist: histories of 200 operations, random printable contents, all 19 capacities, half of them started "
          "within 2 characters of the capacity. distinct_nontrivial = enumerated calls (exhaustive modes) / hash of the history."),
    assumptions=["libstdc++ std::string is the reference semantics", "g++ 12 ASan/UBSan runtimes",
                 "states are prepared through assign()/clear() of the class itself (verified after preparation)"],
    modes=[
        dict(name="c11exh", flavour="asan", cases=36134, exhaustive=True, eval_stat="calls",
             args={"srclevel": {"quick": 1, "thorough": 2}}, env=c10._ENV, timeout=3600,
             require_stats=["judged_mutations", "judged_observations", "truncations", "op.replace_pos_count_str.cstr"]),
        dict(name="c11eq", flavour="asan", cases=171, exhaustive=True, eval_stat="calls", env=c10._ENV,
             require_stats=["pairs"]),
        dict(name="c11hist", flavour="asan", cases={"quick": 16000, "thorough": 1000000}, eval_stat="calls",
             args={"ops": 200}, env=c10._ENV, timeout=3600, require_stats=["truncations"]),
    ],
)


def run(tier, seed, modes=None):
    return runner.run_spec(SPEC, tier, seed, modes)


def replay(path):
    return runner.replay(SPEC, path)
