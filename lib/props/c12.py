"""C12 - dynamic bitset behaves like a growable reference bit vector."""
import runner
import vcommon as vc

# the random histories run without detect_stack_use_after_return (halves their cost; the exhaustive modes, which
# call every function of the class, keep the complete flavour settings)
_HIST_ENV = {"ASAN_OPTIONS": vc.FLAVOURS["asan"]["env"]["ASAN_OPTIONS"].replace(
    "detect_stack_use_after_return=1", "detect_stack_use_after_return=0")}

SPEC = dict(
    prop="C12", level="exploration", default_harness="bitset",
    harnesses={"bitset": dict(name="bitset", sources=["bitset.cpp"], with_lib=True)},
    rule=("reference model = vector<char> of bits on which the documented effect of every operation is applied; "
          "after every operation the state is read back (size, test) and compared, then test, const [], count, any, "
          "none, all, size, to_string, to_ulong (overflow_error expected when a bit >= 64 is set), == against an equal "
          "and a one-bit-different bitset of the same size and the eight iteration forms (range-for on a non-const and a const bitset, begin/end, const begin/end, "
          "cbegin/cend, rbegin/rend, crbegin/crend) are compared with the model; a op= b is compared with a op b "
          "(& | ^ << >>). Growth by set/reset/flip/[] at pos >= size: new size adopted, required > pos, old bits kept, "
          "new bits zero. exh1: case = (one of the 511 bitsets of size 0..8, one of 21 operation kinds), every "
          "position / shift distance / new size in 0..size+3 and {63,64,65,100}, every construction and assignment "
          "form, every ++/-- script of length 4 (pre/post) from begin and end for the four iterator types; every step "
          "once on clean storage and once on storage whose bits behind size() are 1 (moved in from a larger "
          "vector<bool>), so that reads behind the size inside the last word change the result. exh2: "
          "case = one state against all 511 states for & | ^ in both forms (different sizes: only the metamorphic "
          "relation is judged). hist: case = random history of 100 operations (sizes up to 300, positions and "
          "distances biased to size-1, size, size+1.., 63/64/65/100), after every operation all value observers plus one forward and one reverse iteration form (all eight forms in every 8th step). "
          "distinct_nontrivial = number of (state, operation, parameter) steps in the exhaustive modes (distinct by "
          "construction) plus the number of distinct histories by hash of the expanded operation list. "
          "Abstentions (counted as abst.*): size after reset(), size after a shift (only: not smaller), & | ^ and == "
          "between different sizes, ++ on an end iterator, -- where no previous element exists."),
    assumptions=["the vector<char> reference model in harness/bitset.cpp (helpers spot-checked at start-up)",
                 "state is read back through size() and test(); a defect in test() would be attributed to the operation",
                 "g++ 12 ASan/UBSan runtimes; libstdc++ 12 has no subscript assertion in vector<bool>::operator[], so an access "
                 "behind size() inside the last storage word is only visible to the model (size must exceed pos, "
                 "const access must throw); behind the storage it is an ASan report",
                 "unsigned long has 64 bits"],
    modes=[
        dict(name="exh1", flavour="asan", cases=511 * 21, exhaustive=True, eval_stat="steps", timeout=3600,
             require_stats=["grow.set(pos)", "grow.flip(pos)", "grow.reset(pos)", "grow.[]read", "grow.[]=",
                            "exc.expected_out_of_range", "iter.empty_bitset", "iter.all_zero_bitset",
                            "meta.compound_vs_binary", "walk.inc", "walk.dec", "to_ulong.value"]),
        dict(name="exh2", flavour="asan", cases=511, exhaustive=True, eval_stat="steps", timeout=3600,
             require_stats=["pairs.same_size", "pairs.different_size", "meta.compound_vs_binary"]),
        dict(name="hist", flavour="asan", cases={"quick": 20000, "thorough": 600000}, eval_stat="steps",
             args={"ops": 100, "cap": 300}, timeout=3600, env=_HIST_ENV,
             require_stats=["grow.set(pos)", "grow.flip(pos)", "to_ulong.overflow", "to_ulong.value",
                            "meta.compound_vs_binary", "walk.inc", "walk.dec", "iter.positions"]),
    ],
)


def run(tier, seed, modes=None):
    return runner.run_spec(SPEC, tier, seed, modes)


def replay(path):
    return runner.replay(SPEC, path)
