"""C13 - integer-to-string conversions are exact for every integer."""
import runner

SPEC = dict(
    prop="C13", level="exploration", default_harness="int2str",
    harnesses={"int2str": dict(name="int2str", sources=["int2str.cpp"], with_lib=True)},
    rule=("each case = one integer value (or a block of 65536 consecutive values in full32) run through "
          "int2string/grouped_int2string (std::string and buffer variants, 5 group characters) and compared "
          "with an independent digit-loop/odometer reference; buffers are exact-size heap blocks (ASan) and "
          "canary fields; round trip through stringTo<T>. 8/16-bit types: every value (exh16). 32-bit: every "
          "value within +-70000 of each power of ten, power of two, 0 and the limits (edge32), random values "
          "with uniformly drawn bit width (rand32), thorough: all 2^32 values of int32_t and uint32_t (full32, -O2 build with canary buffers) and every 8th block of 65536 values again in the ASan build with exact-size heap buffers (full32asan). "
          "64-bit: the same anchors +-radius (edge64) and random (rand64). distinct_nontrivial = number of "
          "mt: the functions have no state - 8 threads convert random values of all types at the same time (string, buffer, "
          "grouped forms), every result is compared with the reference inside the thread. "
          "distinct (type, value) pairs, counted by hash (random/edge modes) or by construction (exhaustive "
          "modes); every value is non-trivial (each exercises the length search and the digit switch)."),
    assumptions=["the reference digit loop / odometer in harness/int2str.cpp (spot-checked against snprintf at start-up)",
                 "g++ 12 ASan/UBSan runtimes; UBSan vptr check disabled"],
    modes=[
        dict(name="exh16", flavour="asan", cases=65536, exhaustive=True, eval_stat="values", timeout=3600),
        dict(name="edge32", flavour="asan", cases={"quick": 141 * 40001, "thorough": 141 * 140001},
             args={"radius": {"quick": 20000, "thorough": 70000}}, eval_stat="values", timeout=1800),
        dict(name="rand32", flavour="asan", cases={"quick": 1500000, "thorough": 30000000}, eval_stat="values", timeout=1800),
        dict(name="edge64", flavour="asan", cases={"quick": 300 * 4001, "thorough": 300 * 40001},
             args={"radius": {"quick": 2000, "thorough": 20000}}, eval_stat="values", timeout=1800),
        dict(name="rand64", flavour="asan", cases={"quick": 1500000, "thorough": 50000000}, eval_stat="values", timeout=3600),
        dict(name="mt", flavour="asan", cases={"quick": 64, "thorough": 2000}, workers=4, eval_stat="values",
             args={"threads": 8, "values": 4000}, require_stats=["mt.concurrent_conversions"], timeout=3600),
        dict(name="full32", flavour="fast", cases=65536, tiers=["thorough"], exhaustive=True, eval_stat="values",
             args={"heap": 0, "groupmask": 3}, timeout=7200),
        dict(name="full32asan", hmode="full32", flavour="asan", cases=8192, tiers=["thorough"],
             eval_stat="values", args={"heap": 1, "groupmask": 1, "stride": 8}, timeout=14400),
    ],
)


def run(tier, seed, modes=None):
    return runner.run_spec(SPEC, tier, seed, modes)


def replay(path):
    return runner.replay(SPEC, path)
