"""C14 - a log message reaches exactly the destinations whose filters it passes."""
import runner

SPEC = dict(
    prop="C14", level="exploration", default_harness="log_filter",
    harnesses={"log_filter": dict(name="log_filter", sources=["log_filter.cpp"], with_lib=True)},
    rule=("each case = one configuration: duplicate policy (ignore / replace / exception, set before the logs exist, "
          "after all objects exist, or changed before every single setting), 1..5 logs with 0..3 recording "
          "destinations each, a sequence of 0..6 filter settings over {maxLevel, minLevel, level} x levels and "
          "classes(list) = non-empty subset of the six classes spelled in mixed case and any order, on every log and "
          "every destination; optionally one destination removed again. For every configuration all 7 x 7 (level, "
          "class) messages incl. `undefined` are sent to every subset of the log ids and to every log by name, through "
          "Logging::log() or through what the LOG() macro expands to; the recording destinations append (destination, "
          "serial, level, class) to an event log and the offline checker demands exactly one delivery per (selected "
          "log, destination) iff the independent model (map filter type -> parameter per Filters object, updated by "
          "the duplicate policy; conjunction) lets the message pass both the log's and the destination's filters, and "
          "none otherwise. Pre-check: Filters::processLevel() and detail::discard_by_level(id / name) for every log x "
          "level must not say 'discard' when Filters::pass() of that log (or the model) accepts the level for some "
          "class. distinct_nontrivial = distinct expanded configurations (hash of the textual configuration); every "
          "configuration is non-trivial (at least one log and 49 x (2^logs + logs) sends). Abstention: min/max filters "
          "are never set to `undefined`; a message with level `undefined` that meets a min/max filter is only judged "
          "for 'at most once' (counter abstain_undefined_level_vs_min_max)."),
    assumptions=["the 40-line filter model in harness/log_filter.cpp (self-tested at start-up against the documented examples)",
                 "level order for minimum/maximum = order of the LogLevel enumeration (fatal lowest, fullDebug highest), as "
                 "used by the documented cerr/cout example",
                 "g++ 12 ASan/UBSan runtimes with _GLIBCXX_ASSERTIONS; UBSan vptr check disabled"],
    modes=[
        dict(name="configs", flavour="asan", cases={"quick": 20000, "thorough": 150000}, timeout=7200,
             require_stats=["messages", "deliveries", "expected_deliveries", "expected_non_deliveries", "expected_throws",
                            "duplicate_ignore", "duplicate_replace", "precheck_probes_with_passing_message",
                            "precheck_said_discard", "sends_via_LOG_macro", "sends_via_Logging_log"]),
    ],
)


def run(tier, seed, modes=None):
    return runner.run_spec(SPEC, tier, seed, modes)


def replay(path):
    return runner.replay(SPEC, path)
