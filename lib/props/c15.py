"""C15 - rolling log files keep the most recent messages, complete and in order."""
import runner
import vcommon as vc

NCFG = 24


def _nhist(maxlen):
    return sum(4 ** l for l in range(1, maxlen + 1))


HIST_LEN = {"quick": 6, "thorough": 8}
CRASH_LEN = {"quick": 4, "thorough": 6}

SPEC = dict(
    prop="C15", level="fault_enumeration", default_harness="logfiles",
    harnesses={"logfiles": dict(name="logfiles", sources=["logfiles.cpp"], with_lib=True)},
    rule=("enumeration, not sampling: 24 configurations (files::Counted with 1..3 entries, files::MaxSize with "
          "6/8/11/17/30 bytes (with limit 6 the long message does not fit into an empty file), each with 1..3 generations) x every history over {msg-short, msg-mid, msg-long, reopen} "
          "(texts of 2/4/7 characters = 3/5/8 bytes on disk, each with a unique serial; reopen = destroy the "
          "files::Handler and construct a new one on the same file-name definition) of length 1..6 (quick) / 1..8 "
          "(thorough), each in a fresh directory (mode hist). After EVERY event the directory is listed and all "
          "generations are read; checked against the previous state and the acknowledged messages: lines complete, "
          "known and unduplicated; generations oldest->newest are a contiguous run of the acknowledged messages ending "
          "with the last one; nothing but the oldest generation disappears and only when a roll was due; no generation "
          "over its limit (entries / bytes on disk incl. the line terminator); a new generation only when the next "
          "message does not fit or when a full file is re-opened; Counted's documented roll at every re-open of a "
          "non-empty file is reported under its own key counted|new-generation-on-reopen and the run continues; at most "
          "max_gen files. Mode crash: for every history of length 1..4 (quick) / 1..6 "
          "(thorough), every event i and every n <= number of CELMA_VERIF_POINT hits of event i, a separate run in "
          "which event i is executed by a forked child that _exit()s at the n-th hit; the state left behind may differ "
          "from the state before only by the in-flight message and by a due roll; then the files are re-opened and the "
          "rest of the history is run with the same checks. distinct_nontrivial = histories containing at least one "
          "message (hist) + crash runs (crash), all distinct by construction."),
    assumptions=["the scratch file system (rename/append/readdir semantics of the kernel)",
                 "a process death between two hook points leaves the same bytes as _exit() at the earlier point "
                 "(every message is flushed with std::endl; partial writes of one line are not modelled)",
                 "g++ 12 ASan/UBSan runtimes; UBSan vptr check disabled"],
    modes=[
        dict(name="hist", flavour="asan",
             cases={t: NCFG * _nhist(l) for t, l in HIST_LEN.items()},
             args={"maxlen": HIST_LEN}, exhaustive=True,
             require_stats=["rolls_on_write", "rolls_on_open", "fits_exactly", "one_byte_too_long",
                            "oldest_generation_dropped", "exact_state_matches"],
             timeout=3600),
        # fork()+_exit() of an ASan process costs 3-7 ms (page tables of the shadow memory), 0.9 ms without a
        # sanitizer: the fault enumeration runs in the "plain" flavour (-O1, libstdc++ assertions); the same
        # library code runs under ASan/UBSan in mode hist
        dict(name="crash", flavour="plain",
             cases={t: NCFG * _nhist(l) for t, l in CRASH_LEN.items()},
             args={"maxlen": CRASH_LEN}, exhaustive=True, eval_stat="crash_runs",
             require_stats=["crash_runs", "inflight_present", "inflight_absent", "crash_at.roll:after-rename",
                            "crash_at.write:after-write", "reopen_after_crash"],
             timeout=3600),
    ],
)


def run(tier, seed, modes=None):
    # the harness creates (and removes) its log directories below $TMPDIR; point it into the scratch
    # directory of this run, which is removed when the check ends even if a worker is killed
    for m in SPEC["modes"]:
        m["env"] = {"TMPDIR": vc.scratch()}
    return runner.run_spec(SPEC, tier, seed, modes)


def replay(path):
    return runner.replay(SPEC, path)
