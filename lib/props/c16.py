"""C16 - every delivered log message is rendered exactly as its format definition says."""
import runner

SPEC = dict(
    prop="C16", level="exploration", default_harness="log_format",
    harnesses={"log_format": dict(name="log_format", sources=["log_format.cpp"], with_lib=True)},
    rule=("each case = one format definition built through formatting::Creator (1..10 fields over all 16 field kinds, "
          "widths 0..30, left alignment, custom date formats from a pool of 12, auto separator none / \"\" / \"|\" / \", \" "
          "from the constructor and changed in between with separator(); options at random, before every second field "
          "only (pending-option reset probe) or not at all) installed as formatter of a LogDestStream, TZ = UTC or "
          "Europe/Zurich, and a history of global attributes, scoped attributes nested 0..4 deep with shadowing names "
          "(ScopedAttribute and LOG_ATTRIBUTE; a quarter of the scopes re-define an attribute with the value that is visible anyway) and message-owned LogAttributes with up to two parents; 6..25 messages "
          "(all levels x classes; empty / one-word / multi-word / long / blank-framed text; timestamps at day, month, "
          "leap-day, year and DST boundaries, random and 'now' with a sub-second part; several file/function/line/errnbr "
          "shapes) are sent through Logging::log() at the different points of the attribute history and the text that "
          "arrives in the stream is compared with an independent renderer that interprets the same stream operations "
          "from the header documentation. evaluations = messages; distinct_nontrivial = distinct (definition, message, "
          "attribute state) triples by hash. Not generated (documentation silent/ambiguous): options in front of "
          "constant text, format string in front of a non-date field, an option twice before one field, empty attribute "
          "values, empty custom format, negative widths; the text of a thread id field is matched as a wild card "
          "(counter abstain_thread_id_text)."),
    assumptions=["the independent renderer in harness/log_format.cpp (self-tested at start-up against the in-tree examples)",
                 "libc strftime/localtime_r and the tz database as reference for date/time texts",
                 "default formats of date / time / date_time are %F, %T and '%F %T' (shown by the in-tree examples; the headers do not spell them)",
                 "width never truncates (iostream setw semantics)",
                 "LogMsg accessors (getFunctionName, getTimeMilliSecs, getTimeMicroSecs) as source of the stored message data",
                 "g++ 12 ASan/UBSan runtimes with _GLIBCXX_ASSERTIONS; UBSan vptr check disabled"],
    modes=[
        dict(name="render", flavour="asan", cases={"quick": 100000, "thorough": 400000}, eval_stat="messages", timeout=3600,
             require_stats=["messages", "field_attribute", "field_date", "field_time_ms", "field_auto-separator", "field_constant",
                            "scoped_attributes", "scoped_attributes_via_LOG_ATTRIBUTE", "msg_with_own_and_parent_attributes",
                            "global_attributes_removed", "tz_zurich", "ts_boundary", "ts_now", "text_empty", "text_long",
                            "scope_depth_4"]),
    ],
)


def run(tier, seed, modes=None):
    return runner.run_spec(SPEC, tier, seed, modes)


def replay(path):
    return runner.replay(SPEC, path)
