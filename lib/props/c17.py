"""C17 - text-block formatting preserves the words and respects indentation and width."""
import runner


def exh_cases(lens):
    """size of the exhaustive index space of harness/textblock.cpp (make_exh): 3 (indent, width) pairs x both
    first-line modes x 3 list modes x all texts of k = 0..5 words over `lens` word lengths and 3 separators"""
    L = 4 if lens <= 4 else (5 if lens == 5 else 7)
    return 3 * 2 * 3 * sum(1 if k == 0 else L ** k * 3 ** (k - 1) for k in range(0, 6))


SPEC = dict(
    prop="C17", level="exploration", default_harness="textblock",
    harnesses={"textblock": dict(name="textblock", sources=["textblock.cpp"], with_lib=True)},
    rule=("each case = one (indent, length, indentFirst, text) run through celma::format::TextBlock::format into a string "
          "stream; the oracle evaluates the predicates of the property on the produced text (no reference formatter): "
          "P1 output word sequence == input word sequence without the ' nn ' tokens; P2 every line starts with the "
          "indentation (first line iff requested); P3 the word after an input newline is the first word of an output line; "
          "P4 a line longer than length holds a single word longer than length - indent - 2 (it cannot fit even on a list "
          "continuation line); "
          "P5 inside a '-' list line the word after ' nn ' starts an output line. exh: every text of <= 5 words (word j made "
          "of the letter 'a'+j) over the word lengths {1, a-2, a-1, a, a+1} (thorough: {1, 2, a-3 .. a+1}), a = length - "
          "indent, separators {' ', '\\n', ' nn '}, for (indent, length) in {(0,20), (5,30), (12,33)} x both first-line "
          "modes x {no list, first line starts with '- ', every line starts with '- '}. rand: indent 0..12 (usage-like 13..46 for a third of the wide blocks), length 20..100 "
          "(30%: 60..239), 0..60 random words whose lengths are steered to end one before / at / one after the width, "
          "list lines ('- x' and '-x'), newlines (rarely doubled), ' nn ' tokens inside and outside list lines. "
          "usage: the text block as argument_desc.cpp uses it - a Handler with 1..8 arguments (keys of 1..46 characters "
          "around the same-line threshold 40, hidden / deprecated / mandatory, descriptions of 1..40 unique words, rarely a "
          "word of 30..89 characters), usage line length default or 60..239, usage printed through -h/--help after any "
          "combination of --print-hidden / --print-deprecated / --help-short / --help-long; U1 a usage line longer than the "
          "line length holds, besides the key that starts it, at most one word; U2 the words of each displayed description "
          "appear exactly once and in order, those of a suppressed argument never; U3 every description line below the captions "
          "starts with at least the two indentations around the key column (6 blanks). "
          "distinct_nontrivial = distinct (configuration, text) with at least one word - by construction in exh, by hash "
          "in rand."),
    assumptions=["'word' = maximal run of characters other than blank and newline; 'nn' is a token only as a whole word",
                 "texts with an nn token at the beginning or end of an input line are not judged (header defines ' nn ' "
                 "between words only); none is generated",
                 "for indentFirst == false the first line is measured as emitted",
                 "g++ 12 ASan/UBSan runtimes; UBSan vptr check disabled"],
    modes=[
        dict(name="exh", flavour="asan", exhaustive=True,
             cases={"quick": exh_cases(5), "thorough": exh_cases(7)},
             args={"lens": {"quick": 5, "thorough": 7}},
             require_stats=["P1.words_compared", "P2.lines_indented", "P2.first_line_unindented", "P3.newlines_checked",
                            "P4.lines_exactly_width", "P4.overlong_single_word_lines", "P5.nn_breaks_checked",
                            "output.list_continuation_lines_several_words"],
             timeout=3600),
        dict(name="rand", flavour="asan", cases={"quick": 100000, "thorough": 5000000},
             require_stats=["P1.words_compared", "P2.lines_indented", "P2.first_line_unindented", "P3.newlines_checked",
                            "P4.lines_exactly_width", "P4.overlong_single_word_lines", "P5.nn_breaks_checked",
                            "output.list_continuation_lines_several_words", "texts_with_automatic_wrap"],
             timeout=7200),
        dict(name="usage", flavour="asan", cases={"quick": 40000, "thorough": 2000000},
             require_stats=["usage.lines", "usage.lines_exactly_line_length", "usage.overlong_single_word_lines", "usage.words_compared",
                            "usage.descriptions_suppressed", "usage.wide_usages", "usage.description_lines_checked_for_indentation"],
             timeout=7200),
    ],
)


def run(tier, seed, modes=None):
    return runner.run_spec(SPEC, tier, seed, modes)


def replay(path):
    return runner.replay(SPEC, path)
