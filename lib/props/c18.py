"""C18 - the usage lists exactly the visible arguments, each once."""
import re

import argh
import argh_driver as drv
import argh_gen as gen
from argh import HF, Arg, Config, hx, cat_of, kind_of

PROP = "C18"
BATCH = 60
RULE = ("case = one generated configuration of 1..12 arguments (in a quarter of the cases plus a sub-group argument -G,--yy-group whose handler has 2..4 arguments of its own, some hidden / deprecated / short-only / long-only: the usage printed by '<display switches> -G -h' must list exactly the sub-group's visible arguments; in a quarter of the cases plus the positional argument '-', listed as '--' in the full usage only; mandatory/optional, hidden, deprecated, replaced-by, short-only/"
        "long-only/both keys, long keys of 2..45 characters around the same-line threshold, descriptions of 1..80 marker words "
        "'D<n>x w<k> ...', explicit print-default on/off, value checks, requires/excludes constraints, usage line length 60..239) "
        "x display settings given through constructor flags (print hidden / print deprecated) and/or through the command-line "
        "arguments --print-hidden, --print-deprecated, --help-short, --help-long before -h/--help ('continue after usage' set). "
        "The printed usage is parsed (caption blocks, entries recognised by the key column at indentation 3, continuation "
        "lines re-assembled). Oracle (visibility model): the multiset of (key string, caption) of the user-defined arguments "
        "equals the model's visible set - every visible argument exactly once under its caption with all its keys (short-only/"
        "long-only display: exactly the arguments that have such a key, shown with that key), no hidden/deprecated one unless "
        "requested; each entry contains its description words in order and the 'Check:', 'Constraint:', 'Default value:', "
        "'[hidden]', '[deprecated]', '[replaced by' annotations iff configured. Second scenario kind: --help-arg=<key> for every "
        "defined key (short and long spelling) prints exactly that argument's description words; for undefined keys an "
        "'is unknown' report. non-trivial = >= 3 arguments with >= 1 invisible-by-default one or a display setting; distinct = "
        "hash of (configuration, argv).")
ASSUMPTIONS = ["tolerant parser of the usage layout in lib/props/c18.py", "built-in arguments (help, print-hidden, ...) are parsed but not judged",
               "default values are judged only for scalar destinations with an explicit setPrintDefault()"]

BUILTIN = {"-h", "--help", "-h,--help", "--help-arg", "--help-arg-full", "--print-hidden", "--print-deprecated", "--help-short",
           "--help-long", "--list-arg-vars", "--endvalues", "--list-arg-groups"}
KINDS = ["b", "i", "i", "s", "s", "d", "vi", "vs", "oi", "l"]
LONGPOOL = ["in", "input", "output-file", "verbose-level", "name", "number-of-items", "xy", "max-size", "colour", "mode",
            "a-rather-long-argument-name-for-testing", "an-extremely-long-argument-name-that-never-fits-in-a-column", "list", "index", "path-to-the-file"] + \
           ["k%d-%s" % (n, ("boundary-of-the-key-column-" * 3)[:n - 4]) for n in (34, 35, 36, 37, 38, 39)]   # key texts of 39..41 characters (MaxNameLength = 40)


def cases(tier):
    return 8000 if tier == "quick" else 400000


def make_desc(rng, n):
    k = rng.choice([1, 2, 3, 5, 8, 13, 20, 40, 80])
    words = ["D%dx" % n] + ["w%d%s" % (i, "y" * rng.choice([0, 0, 1, 3, 7])) for i in range(k - 1)]
    # now and then a word that is too long for the description column (a path, a URL) - also as the first word of the text
    if rng.random() < 0.15:
        words[rng.choice([0, 0, rng.randrange(len(words))])] += "/" + "p" * rng.choice([15, 25, 44, 60, 78, 90])
    return " ".join(words)


def gen_cfg(rng):
    flags = HF["helpShort"] | HF["helpLong"] | HF["usageCont"] | HF["helpArg"] | HF["argHidden"] | HF["argDeprecated"] | HF["usageShort"] | HF["usageLong"]
    if rng.random() < 0.25:
        flags |= HF["usageHidden"]
    if rng.random() < 0.25:
        flags |= HF["usageDeprecated"]
    cfg = Config(flags)
    n = rng.randint(1, 12)
    shorts = list("abcdefgijklmnopqrstuvwxyz")
    rng.shuffle(shorts)
    longs = list(LONGPOOL)
    rng.shuffle(longs)
    counts = {}
    for i in range(n):
        kind = rng.choice(KINDS)
        form = rng.choice(["both", "both", "short", "long"])
        s = shorts.pop() if form in ("both", "short") else None
        l = longs.pop() if form in ("both", "long") and longs else None
        if not s and not l:
            s = shorts.pop()
        a = Arg(gen.next_slot(counts, kind), s, l)
        a.spec = gen.spec_variant(rng, s, l)
        a.desc = make_desc(rng, i)
        r = rng.random()
        if cat_of(a.slot) != "flag" and r < 0.3:
            a.mandatory = True
        elif r < 0.45:
            a.hidden = True
        elif r < 0.6:
            a.deprecated = True
        elif r < 0.7:
            a.replaced = "--new-" + (l or s)
        if rng.random() < 0.3 and not a.mandatory:
            a.hidden = True          # also together with deprecated / replaced: both display settings must be on
        if cat_of(a.slot) == "scalar" and kind_of(a.slot) in ("i", "s", "d", "l") and rng.random() < 0.5:
            a.printdef = rng.choice([0, 1])
            a.init = gen.gen_text(rng, argh.elem_of(a.slot), small=True)
        if argh.elem_of(a.slot) == "int" and rng.random() < 0.3:
            a.checks.append(rng.choice([("lower", 3, "int"), ("upper", 90, "int"), ("range", 1, 50, "int")]))
        cfg.args.append(a)
    if rng.random() < 0.25:
        # the positional argument (key "-"): has neither a short nor a long key, the usage lists it as "--"
        pa = Arg("s9", None, None, spec="-")
        pa.desc = make_desc(rng, n)
        pa.init = "none"
        r = rng.random()
        if r < 0.3:
            pa.mandatory = True
        elif r < 0.45:
            pa.hidden = True
        elif r < 0.55:
            pa.deprecated = True
        if rng.random() < 0.4:
            pa.printdef = rng.choice([0, 1])
        cfg.args.insert(rng.randint(0, len(cfg.args)), pa)
    if len(cfg.args) >= 2:
        for _ in range(rng.choice([0, 1, 1, 2])):
            x, y = rng.sample(cfg.args, 2)
            if y.mandatory or y in x.requires or y in x.excludes or "-" in (x.keyspec(), y.keyspec()):
                continue
            (x.requires if rng.random() < 0.5 else x.excludes).append(y)
    if rng.random() < 0.6:
        cfg.line_len = rng.choice([60, 61, 70, 80, 100, 132, 200, 239])
    if rng.random() < 0.25 and not any(a.short == "G" or a.long == "yy-group" for a in cfg.args):
        # a sub-group: an argument whose "value" is another handler with its own arguments and its own help; the display
        # settings given on the main command line hold for its usage too
        sub = []
        for j, (s_, l_) in enumerate(rng.sample([("p", "port"), ("t", None), (None, "timeout"), ("u", "user-name"), (None, "zone"), ("q", None)], rng.randint(2, 4))):
            a = Arg("i%d" % (20 + j), s_, l_)
            a.desc = make_desc(rng, 30 + j)
            a.init = "0"
            r = rng.random()
            if r < 0.3:
                a.hidden = True
            elif r < 0.55:
                a.deprecated = True
            elif r < 0.65:
                a.hidden = a.deprecated = True
            sub.append(a)
        cfg.subgroup = ("G,yy-group", HF["helpShort"] | HF["helpLong"] | HF["usageCont"], sub)
    return cfg


def visible(cfg, a, hidden, depr, mode):
    if a.hidden and not hidden:
        return None
    if (a.deprecated or a.replaced) and not depr:
        return None
    if a.keyspec() == "-":
        return "--" if mode == "all" else None
    if mode == "short":
        return "-" + a.short if a.short else None
    if mode == "long":
        return "--" + a.long if a.long else None
    if a.short and a.long:
        return "-%s,--%s" % (a.short, a.long)
    return "-" + a.short if a.short else "--" + a.long


def parse_usage(text):
    """-> list of (caption, key string, entry text)"""
    entries = []
    caption = None
    cur = None
    for line in text.split("\n"):
        if line.startswith("Mandatory arguments:"):
            caption, cur = "mandatory", None
            continue
        if line.startswith("Optional arguments:"):
            caption, cur = "optional", None
            continue
        m = re.match(r"^   (-\S+)(?:\s+(.*))?$", line)
        if m and not line.startswith("    "):
            cur = [caption, m.group(1), m.group(2) or ""]
            entries.append(cur)
            continue
        if cur is not None and line.startswith("    "):
            cur[2] += " " + line.strip()
        elif line.strip() == "":
            cur = None
    return entries


def gen_case(seed, idx, tier):
    rng = drv.case_rng(seed, PROP, idx)
    c = drv.Case(idx)
    cfg = gen_cfg(rng)
    c.meta.update(cfg=cfg, runs=[])
    # usage scenarios
    for _ in range(3):
        pre = []
        hidden = bool(cfg.flags & HF["usageHidden"])
        depr = bool(cfg.flags & HF["usageDeprecated"])
        mode = "all"
        if rng.random() < 0.4:
            pre.append("--print-hidden")
            hidden = True
        if rng.random() < 0.4:
            pre.append("--print-deprecated")
            depr = True
        r = rng.random()
        if r < 0.25:
            pre.append("--help-short")
            mode = "short"
        elif r < 0.5:
            pre.append("--help-long")
            mode = "long"
        rng.shuffle(pre)
        words = pre + [rng.choice(["-h", "--help"])]
        sid = c.add("c18", lambda sid, w=words: argh.scenario_text(sid, "usage", cfg, w))
        c.meta["runs"].append(("usage", sid, words, hidden, depr, mode))
    if cfg.subgroup is not None:
        for _ in range(2):
            pre = []
            hidden = bool(cfg.flags & HF["usageHidden"])
            depr = bool(cfg.flags & HF["usageDeprecated"])
            mode = "all"
            if rng.random() < 0.5:
                pre.append("--print-hidden")
                hidden = True
            if rng.random() < 0.5:
                pre.append("--print-deprecated")
                depr = True
            r = rng.random()
            if r < 0.25:
                pre.append("--help-short")
                mode = "short"
            elif r < 0.5:
                pre.append("--help-long")
                mode = "long"
            rng.shuffle(pre)
            words = pre + [rng.choice(["-G", "--yy-group"]), rng.choice(["-h", "--help"])]
            sid = c.add("c18", lambda sid, w=words: argh.scenario_text(sid, "usage-sub-group", cfg, w))
            c.meta["runs"].append(("usage-sub", sid, words, hidden, depr, mode))
    # single-argument help
    keyed = [a for a in cfg.args if a.keyspec() != "-"]
    for a in rng.sample(keyed, min(len(keyed), 3)):
        keys = ([a.short] if a.short else []) + ([a.long] if a.long else [])
        k = rng.choice(keys)
        form = rng.choice(["eq", "word"])
        if len(k) == 1 and rng.random() < 0.5:
            k2 = "-" + k if rng.random() < 0.5 else k
        else:
            k2 = k
        words = ["--help-arg=" + k2] if form == "eq" or k2.startswith("-") else ["--help-arg", k2]
        sid = c.add("c18", lambda sid, w=words: argh.scenario_text(sid, "help-arg", cfg, w))
        c.meta["runs"].append(("help-arg", sid, words, a, k, None))
    if cfg.subgroup is not None:
        # the argument that opens the sub-group is an argument of this handler too: asking for its help prints its description
        pseudo = Arg("sg0", "G", "yy-group")
        pseudo.desc = "sub group"
        k = rng.choice(["G", "yy-group"])
        words = ["--help-arg=" + k] if rng.random() < 0.5 else ["--help-arg", k]
        sid = c.add("c18", lambda sid, w=words: argh.scenario_text(sid, "help-arg-sub-group-key", cfg, w))
        c.meta["runs"].append(("help-arg", sid, words, pseudo, k, None))
    unk = rng.choice(["zz", "Q", "no-such-key", "H"])
    words = ["--help-arg=" + unk]
    sid = c.add("c18", lambda sid, w=words: argh.scenario_text(sid, "help-arg-unknown", cfg, w))
    c.meta["runs"].append(("help-unknown", sid, words, None, unk, None))
    return c


def words_in_order(desc, text):
    toks = text.split()
    i = 0
    for w in desc.split():
        try:
            i = toks.index(w, i) + 1
        except ValueError:
            return False
    return True


def judge(c, results, rep):
    cfg = c.meta["cfg"]
    texts = dict(c.scenarios)
    nontrivial = len(cfg.args) >= 3 and any(a.hidden or a.deprecated or a.replaced for a in cfg.args)
    for run in c.meta["runs"]:
        kind, sid, words = run[0], run[1], run[2]
        r = results[sid]
        text = texts[sid]
        if nontrivial or len(words) > 1:
            rep.distinct(text.split("\n", 1)[1])
        if r.status != "ok" and not (kind == "usage-sub" and r.status == "throw" and "Mandatory argument" in r.ewhat):
            # (after the usage of a sub-group the main handler still asks for its own mandatory arguments)
            rep.viol("%s|outcome-%s" % (kind, r.status), "%s %s argv=%r" % (r.etype, r.ewhat, words), [text])
            continue
        if kind == "usage-sub":
            # the usage printed by the sub-group's own help argument: exactly the visible arguments of the sub-group
            hidden, depr, mode = run[3], run[4], run[5]
            rep.stat("usage_sub.mode_%s%s%s" % (mode, "+hidden" if hidden else "", "+deprecated" if depr else ""))
            ents = [e for e in parse_usage(r.out) if e[1] not in BUILTIN]
            got = sorted(e[1] for e in ents)
            want = sorted(k for k in (visible(cfg, a, hidden, depr, mode) for a in cfg.subgroup[2]) if k is not None)
            # the main handler's own arguments are not part of this usage; anything that is not a sub-group key is foreign
            subkeys = set(k for m in ("all", "short", "long") for k in (visible(cfg, a, True, True, m) for a in cfg.subgroup[2]) if k)
            foreign = [g for g in got if g not in subkeys]
            got = [g for g in got if g in subkeys]
            if got != want:
                missing = [w for w in want if w not in got]
                extra = [g for g in got if g not in want]
                rep.viol("usage-sub-group|%s|%s" % ("missing" if missing and not extra else "unexpected" if extra and not missing else "wrong-entry", mode),
                         "sub-group usage: missing=%r unexpected=%r | argv=%r" % (missing, extra, words), [text])
            else:
                rep.stat("usage_sub.entries_as_model", len(want))
            if foreign:
                rep.stat("usage_sub.unjudged_foreign_entries", len(foreign))
            continue
        if kind == "usage":
            hidden, depr, mode = run[3], run[4], run[5]
            rep.stat("usage.mode_%s%s%s" % (mode, "+hidden" if hidden else "", "+deprecated" if depr else ""))
            ents = [e for e in parse_usage(r.out) if e[1] not in BUILTIN]
            got = sorted((e[1], e[0]) for e in ents)
            want = []
            for a in cfg.args:
                k = visible(cfg, a, hidden, depr, mode)
                if k is not None:
                    want.append((k, "mandatory" if a.mandatory else "optional"))
            if cfg.subgroup is not None:
                # the argument that opens the sub-group is an (optional) argument of this handler
                want.append(({"all": "-G,--yy-group", "short": "-G", "long": "--yy-group"}[mode], "optional"))
            want.sort()
            if got != want:
                missing = [w for w in want if w not in got]
                extra = [g for g in got if g not in want]
                dup = [g for g in set(got) if got.count(g) > 1]
                why = "listed-twice" if dup else "missing" if missing and not extra else "unexpected" if extra and not missing else "wrong-entry"
                rep.viol("usage|%s|%s" % (why, mode), "missing=%r unexpected=%r twice=%r | argv=%r" % (missing, extra, dup, words), [text])
                continue
            rep.stat("usage.entries_as_model", len(want))
            by_key = {e[1]: e for e in ents}
            for a in cfg.args:
                k = visible(cfg, a, hidden, depr, mode)
                if k is None:
                    continue
                body = by_key[k][2]
                if not words_in_order(a.desc, body):
                    rep.viol("usage|description", "entry %s lacks its description words: %r | argv=%r" % (k, body[:300], words), [text])
                for cond, marker, name in ((bool(a.checks), "Check:", "check"), (bool(a.requires or a.excludes), "Constraint:", "constraint"),
                                           (a.hidden, "[hidden]", "hidden-mark"), (a.deprecated and not a.replaced, "[deprecated]", "deprecated-mark"),
                                           (bool(a.replaced), "[replaced by", "replaced-mark")):
                    if cond != (marker in body):
                        rep.viol("usage|annotation|%s" % name, "entry %s: %s %s: %r" % (k, marker, "missing" if cond else "unexpected", body[:300]), [text])
                if a.printdef is not None and not a.mandatory:
                    if bool(a.printdef) != ("Default value:" in body):
                        rep.viol("usage|annotation|default", "entry %s printdef=%s: %r" % (k, a.printdef, body[:300]), [text])
                    else:
                        rep.stat("usage.default_checked")
        elif kind == "help-arg":
            a, k = run[3], run[4]
            rep.stat("helparg.%s" % ("short" if len(k) == 1 else "long"))
            if not words_in_order(a.desc, r.out):
                rep.viol("help-arg|description", "--help-arg %r: output %r lacks the words of %r" % (k, r.out[:300], a.desc[:80]), [text])
            else:
                others = [b for b in cfg.args if b is not a and b.desc.split()[0] in r.out.split()]
                if others:
                    rep.viol("help-arg|other-argument", "--help-arg %r also prints %r" % (k, others[0].keyspec()), [text])
                else:
                    rep.stat("helparg.as_model")
        else:
            rep.stat("helparg.unknown")
            if "unknown" not in (r.err + r.out):
                rep.viol("help-arg|unknown-not-reported", "--help-arg=%s: out=%r err=%r" % (run[4], r.out[:200], r.err[:200]), [text])
    rep.sample("args=%r argv=%r" % ([(a.keyspec(), "M" if a.mandatory else "", "H" if a.hidden else "", "D" if a.deprecated or a.replaced else "") for a in cfg.args], c.meta["runs"][0][2]))


def run(tier, seed, modes=None):
    import sys
    return drv.run(sys.modules[__name__], tier, seed)


def replay(path):
    import sys
    return drv.replay(sys.modules[__name__], path)
