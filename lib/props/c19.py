"""C19 - buffered reading and writing preserve the byte stream for every chunking."""
import runner


def exh_cases(maxn, seqlen):
    """size of the exhaustive index space of harness/buffers.cpp (exh_blocks): per N and statistic policy
    3 source chunkings x all get(0..N+2) sequences + all append(0..N+2)|flush sequences of that length"""
    return sum(2 * (3 * (n + 3) ** seqlen + (n + 4) ** seqlen) for n in range(1, maxn + 1))


EXH_QUICK = dict(maxn=4, seqlen=6)
EXH_THOROUGH = dict(maxn=4, seqlen=7)

SPEC = dict(
    prop="C19", level="exploration", default_harness="buffers",
    harnesses={"buffers": dict(name="buffers", sources=["buffers.cpp"], with_lib=False)},
    rule=("each case = one history: a fresh ReadBuffer<N,P> / WriteBuffer<N,P> (N in {1,2,3,4,5,8,16,64}, P = empty or "
          "counting statistic policy) driven by a script of get(len) resp. append(len)/flush requests with len in 0..N+2 "
          "(plus rare NULL pointers), the source splitting its data by one of the chunkings always-1-byte, always-full, "
          "exactly-what-is-missing, random 1..cap, mixed; source/append bytes are a counter pattern, caller blocks are "
          "exact-size heap blocks (ASan). Everything seen at get()/readData()/append()/flush()/writeData()/buffered() is "
          "recorded and an offline checker decides on the event log: get() output == prefix of the source stream; "
          "writeData() payloads == prefix of the appended stream, all of it after each flush() and after an append of "
          "more than N bytes; buffered() == appended - written; get(len > N) and NULL pointers refused; length 0 does "
          "nothing; statistic counters equal the observed calls. exh: every request sequence of the given length for "
          "N <= maxn x 3 deterministic chunkings x 2 policies (all shorter sequences are prefixes and are judged after "
          "every request). rand: histories of 1000 requests (1 in 8 shorter) under 5 request-size profiles. "
          "wfault (extension: a sink that fails): histories of 4..43 append(0..N+2)/flush requests on a WriteBuffer whose all-or-nothing "
          "writeData() throws at random calls, the caller repeats the failed request; after every request sink + buffered() == "
          "appended, after the closing flush the sink holds exactly the appended bytes. "
          "distinct_nontrivial = distinct (class, N, policy, chunking [+ chunk seed], request sequence) in which at least "
          "one request moves a byte - by construction in exh, by hash in rand."),
    assumptions=["the source never returns 0 bytes when asked for >= 1 byte and never throws; the sink always accepts all bytes",
                 "g++ 12 ASan/UBSan runtimes",
                 "refused = a std::exception is thrown and the stream continues unharmed"],
    modes=[
        dict(name="exh", flavour="asan", exhaustive=True,
             cases={"quick": exh_cases(**EXH_QUICK), "thorough": exh_cases(**EXH_THOROUGH)},
             args={"maxn": {"quick": EXH_QUICK["maxn"], "thorough": EXH_THOROUGH["maxn"]},
                   "seqlen": {"quick": EXH_QUICK["seqlen"], "thorough": EXH_THOROUGH["seqlen"]}},
             require_stats=["read.get_several_source_reads", "read.get_served_from_buffer", "read.refused_oversized",
                            "read.refill_after_compaction", "read.refill_behind_data",
                            "write.passthrough_checked", "write.append_forced_flush", "write.flush_wrote",
                            "read.stats_checked", "write.stats_checked"],
             timeout=3600),
        dict(name="rand", flavour="asan", cases={"quick": 20000, "thorough": 1000000},
             args={"nreq": 1000},
             require_stats=["read.get_several_source_reads", "read.get_served_from_buffer", "read.refused_oversized",
                            "read.refill_after_compaction", "read.refill_behind_data", "read.refused_null", "write.refused_null", "write.passthrough_checked",
                            "write.append_forced_flush", "write.flush_wrote", "write.flush_empty"],
             timeout=7200),
        dict(name="wfault", flavour="asan", cases={"quick": 40000, "thorough": 2000000},
             require_stats=["wfault.sink_failures", "wfault.histories_with_a_failing_sink", "wfault.requests"], timeout=3600),
    ],
)


def run(tier, seed, modes=None):
    return runner.run_spec(SPEC, tier, seed, modes)


def replay(path):
    return runner.replay(SPEC, path)
