"""C20 - concurrency helpers (Singleton, ManagedThread) keep their contract under every schedule.

ThreadSanitizer (reports counted from the log files, see lib/tsan.py) + two history predicates
evaluated by harness/conc_helpers.cpp; a second pass of the behavioural part without sanitizer.
"""
import tsan

BATCH = 25   # rounds / lifetimes per case

SPEC = dict(
    prop="C20", level="exploration", default_harness="conc_helpers",
    harnesses={"conc_helpers": dict(name="conc_helpers", sources=["conc_helpers.cpp"], with_lib=False)},
    rule=("singleton: case = 25 rounds; in a round T in {2,4,8,16} parked threads are released by a spin barrier "
          "into their first Singleton<Payload>::instance() call after a single-threaded reset(); predicates per round: "
          "exactly one construction, one address (also for a later call), every thread sees a completely constructed "
          "object, constructor arguments are those of the constructing call. mthread: case = 25 ManagedThread "
          "lifetimes (blocking function observed via started/release/finished flags: isActive() sampled 8 times while "
          "the function provably runs -> true, after join -> false; empty and short functions: false after join; "
          "observed-by-other-thread: the object is constructed in known storage while a second thread, as soon as it has seen "
          "the function running, queries it - also before the constructor has returned; detached-while-running: the owner "
          "calls detach() while the function runs, the samples behind it must still say active). "
          "Seeded delays (none/yield/1us/50us/1ms, three perturbation levels) at the CELMA_VERIF_POINTs in "
          "Singleton::instance (before the lock, between construction and publication) and in the ManagedThread "
          "constructor (between thread start and flag initialisation). ThreadSanitizer reports are counted when at "
          "least one access stack has a Celma frame and the other one is inside Celma or the harness "
          "(keys tsan|global:<variable>, tsan|heap:<allocating Celma function>, else tsan|<funcA>|<funcB> of the innermost "
          "Celma frames, see lib/tsan.py). distinct_nontrivial = distinct (threads, level, payload, "
          "winner thread, number of threads on the slow path, number of calls overlapping the construction window) "
          "resp. (function kind, level, hook delay class, observed order of 'function entered' and 'flag "
          "initialisation point') signatures; every round/lifetime is non-trivial (it races for the first access "
          "resp. starts a thread)."),
    assumptions=["g++ 12 ThreadSanitizer runtime (happens-before analysis extends one run to all schedules with the same "
                 "synchronisation order; schedules themselves are sampled, not enumerated)",
                 "the harness' own shared state is std::atomic; the hook uses relaxed atomics only, so it adds no "
                 "happens-before edge",
                 "order counters are derived from a relaxed logical clock: evidence, not oracle"],
    modes=[
        dict(name="singleton", flavour="tsan", min_celma_stacks=1, eval_stat="singleton_rounds",
             cases={"quick": 384, "thorough": 16800}, chunk={"quick": 24, "thorough": 240},
             repeat=1, parallel={"quick": 4, "thorough": 6}, args={"batch": BATCH},
             require_stats=["singleton_rounds_T2", "singleton_rounds_T16"], timeout={"quick": 1200, "thorough": 3600}),
        dict(name="mthread", flavour="tsan", min_celma_stacks=1, eval_stat="mthread_lifetimes",
             cases={"quick": 864, "thorough": 40500}, chunk={"quick": 54, "thorough": 810},
             repeat=1, parallel={"quick": 8, "thorough": 12}, args={"batch": BATCH},
             require_stats=["mthread_lifetimes_blocking", "mthread_lifetimes_empty", "mthread_lifetimes_short",
                            "mthread_lifetimes_observed-by-other-thread", "mthread_lifetimes_detached-while-running",
                            "mthread_active_samples", "mthread_samples_after_detach"], timeout={"quick": 1200, "thorough": 3600}),
        dict(name="singleton-plain", hmode="singleton", flavour="plain", eval_stat="singleton_rounds",
             cases={"quick": 384, "thorough": 16800}, workers={"quick": 4, "thorough": 6}, args={"batch": BATCH},
             timeout={"quick": 1200, "thorough": 3600}),
        dict(name="mthread-plain", hmode="mthread", flavour="plain", eval_stat="mthread_lifetimes",
             cases={"quick": 864, "thorough": 40500}, workers={"quick": 8, "thorough": 12}, args={"batch": BATCH},
             timeout={"quick": 1200, "thorough": 3600}),
    ],
)


def run(tier, seed, modes=None):
    return tsan.run_spec(SPEC, tier, seed, modes)


def replay(path):
    return tsan.replay(SPEC, path)
