"""Generic driver for checks whose oracle lives in a C++ harness (vh.hpp protocol)."""
import json
import os
import subprocess
import sys

import vcommon as vc


def tier_value(v, tier):
    if isinstance(v, dict):
        return v.get(tier, v.get("quick"))
    return v


def build_all(spec, tier=None, only_modes=None):
    """-> {(harness name, flavour): exe}"""
    exes = {}
    for m in spec["modes"]:
        if tier and m.get("tiers") and tier not in m["tiers"]:
            continue
        if only_modes and m["name"] not in only_modes:
            continue
        h = spec["harnesses"][m.get("harness", spec.get("default_harness"))]
        k = (h["name"], m["flavour"])
        if k not in exes:
            exes[k] = vc.build_harness(h["name"], h["sources"], m["flavour"],
                                       with_lib=h.get("with_lib", True),
                                       extra_cflags=h.get("cflags", ()),
                                       extra_ldflags=h.get("ldflags", ()), deps=h.get("deps", ()))
    return exes


def mode_args(m, tier, seed):
    args = ["--mode", m.get("hmode", m["name"]), "--seed", str(seed)]
    for k, v in (m.get("args") or {}).items():
        args += ["--" + k, str(tier_value(v, tier))]
    return args


def run_spec(spec, tier, seed, only_modes=None):
    chk = vc.Check(spec["prop"], tier, seed, spec.get("level", "exploration"))
    chk.coverage["rule"] = spec["rule"]
    chk.assumptions = list(spec.get("assumptions", []))
    try:
        exes = build_all(spec, tier, only_modes)
        distinct = 0
        exhaustive_modes = []
        for m in spec["modes"]:
            if only_modes and m["name"] not in only_modes:
                continue
            if m.get("tiers") and tier not in m["tiers"]:
                continue
            h = spec["harnesses"][m.get("harness", spec.get("default_harness"))]
            exe = exes[(h["name"], m["flavour"])]
            cases = int(tier_value(m["cases"], tier))
            if cases <= 0:
                continue
            args = mode_args(m, tier, seed)
            res = vc.run_pool(exe, args, m["flavour"], cases, "%s-%s" % (spec["prop"], m["name"]),
                              nworkers=m.get("workers"), timeout=tier_value(m.get("timeout", 1800), tier),
                              env_extra=m.get("env"))
            replay_base = dict(harness=h["name"], flavour=m["flavour"], args=args)
            chk.absorb(res, m["name"], replay_base)
            ev = res.stats.get(m.get("eval_stat", "cases"), 0)
            chk.coverage["evaluations"] += ev
            d = len(res.hashes) + res.stats.get("distinct_exact", 0)
            distinct += d
            chk.count(m["name"] + ".distinct_nontrivial", d)
            if m.get("exhaustive"):
                exhaustive_modes.append(m["name"])
            if ev == 0 and not res.infra:
                chk.infra.append("mode %s observed no case" % m["name"])
            need = m.get("require_stats", [])
            for st in need:
                if res.stats.get(st, 0) == 0:
                    chk.infra.append("mode %s: counter %s stayed 0 (monitor observed nothing)" % (m["name"], st))
        chk.coverage["distinct_nontrivial"] = distinct
        if exhaustive_modes:
            chk.coverage["exhaustive_modes"] = exhaustive_modes
    except vc.HarnessError as e:
        chk.infra.append(str(e))
    return chk.finish()


def replay(spec, path):
    obj = json.load(open(path))
    mode = obj.get("mode")
    m = [x for x in spec["modes"] if x["name"] == mode]
    if not m:
        print("replay: unknown mode %r" % mode)
        return vc.EXIT_HARNESS
    m = m[0]
    h = spec["harnesses"][m.get("harness", spec.get("default_harness"))]
    exe = vc.build_harness(h["name"], h["sources"], m["flavour"], with_lib=h.get("with_lib", True),
                           extra_cflags=h.get("cflags", ()), extra_ldflags=h.get("ldflags", ()), deps=h.get("deps", ()))
    args = obj.get("args") or mode_args(m, obj.get("tier", "quick"), obj.get("seed", 1))
    idx = int(obj.get("idx") or 0)
    argv = [exe] + list(args) + ["--start", str(idx), "--count", "1", "--verbose", "1"]
    print("replay: " + " ".join(argv))
    sys.stdout.flush()
    p = subprocess.run(argv, env=vc.flavour_env(m["flavour"], m.get("env")), stdout=subprocess.PIPE,
                       stderr=subprocess.STDOUT, text=True, errors="replace")
    print(p.stdout[-8000:])
    bad = p.returncode != 0 or "\nVIOL " in "\n" + p.stdout
    if bad:
        print("VIOLATION property=%s replay=%s" % (spec["prop"], path))
        return vc.EXIT_VIOLATION
    print("replay: case passed")
    return vc.EXIT_OK
