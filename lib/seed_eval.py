#!/usr/bin/env python3
"""Evaluates one seeded change written by an independent sub-agent:

  seed_eval.py <seed id, e.g. c19-1> [--tier quick] [--props C19,C10] [--no-pinned]

1. the demonstration must pass on /repo and fail on the changed worktree /tmp/seed-<id>/wt
2. the pinned 42 tests must still pass with the change
3. the registered check(s) of the property are run against the changed tree (VERIF_REPO=<wt>)
4. the change is stored as /verif/seeded/<id>/ (patch.diff, demonstration, meta.json with what was run and seen)
The worktree is removed afterwards (unless --keep).
"""
import argparse
import json
import os
import shutil
import subprocess
import sys
import time

VERIF = os.path.dirname(os.path.dirname(os.path.abspath(__file__)))


def sh(cmd, timeout=3600, env=None, cwd=None):
    try:
        p = subprocess.run(cmd, shell=True, stdout=subprocess.PIPE, stderr=subprocess.STDOUT, text=True, errors="replace",
                           timeout=timeout, env=env, cwd=cwd)
        return p.returncode, p.stdout
    except subprocess.TimeoutExpired as e:
        return 124, (e.stdout or "") if isinstance(e.stdout, str) else ""


def main():
    ap = argparse.ArgumentParser()
    ap.add_argument("sid")
    ap.add_argument("--tier", default="quick")
    ap.add_argument("--props")
    ap.add_argument("--no-pinned", action="store_true")
    ap.add_argument("--keep", action="store_true")
    a = ap.parse_args()
    sdir = "/tmp/seed-" + a.sid
    wt = os.path.join(sdir, "wt")
    meta = json.load(open(os.path.join(sdir, "meta.json")))
    prop = a.sid.split("-")[0].upper()
    props = a.props.split(",") if a.props else [prop]
    out = os.path.join(VERIF, "seeded", a.sid)
    os.makedirs(out, exist_ok=True)
    res = {"ran": []}
    # patch as it is in the worktree now
    diff = subprocess.run("git -C %s diff" % wt, shell=True, stdout=subprocess.PIPE).stdout       # bytes: some files have CRLF line ends
    open(os.path.join(out, "patch.diff"), "wb").write(diff)
    for f in os.listdir(sdir):
        if f in ("wt", "build", "patch.diff") or f.startswith("lib") or os.path.isdir(os.path.join(sdir, f)):
            continue
        if os.path.getsize(os.path.join(sdir, f)) < 200000:
            shutil.copy(os.path.join(sdir, f), os.path.join(out, f))
    # 1. demonstration
    run_demo = os.path.join(sdir, "run_demo.sh")
    if os.path.exists(run_demo):
        rc0, o0 = sh("bash %s /repo" % run_demo, timeout=1800)
        rc1, o1 = sh("bash %s %s" % (run_demo, wt), timeout=1800)
        res["demo_unchanged"] = dict(rc=rc0, tail=o0[-400:])
        res["demo_changed"] = dict(rc=rc1, tail=o1[-600:])
        res["ran"].append("bash run_demo.sh /repo ; bash run_demo.sh <changed worktree>")
    else:
        res["demo_unchanged"] = res["demo_changed"] = dict(rc=None, tail="no run_demo.sh; see meta.demo_build_cmd")
    # 2. pinned tests
    if not a.no_pinned:
        rc, o = sh("/tmp/seedkit/pinned_tests.sh %s %s/build-eval" % (wt, sdir), timeout=3600)
        res["pinned_tests"] = dict(rc=rc, tail=o[-300:])
        res["ran"].append("/tmp/seedkit/pinned_tests.sh <changed worktree> (cmake -G Ninja RelWithDebInfo + ctest, 42 pinned tests)")
        shutil.rmtree(os.path.join(sdir, "build-eval"), ignore_errors=True)
    # 3. checks
    res["checks"] = {}
    for p in props:
        env = dict(os.environ, VERIF_REPO=wt, VERIF_EVIDENCE_DIR=os.path.join(sdir, "ev"), VERIF_REPLAY_DIR=os.path.join(sdir, "replay"))
        t0 = time.time()
        rc, o = sh("./check %s --tier %s" % (p, a.tier), timeout=4 * 3600, env=env, cwd=VERIF)
        viol = [l for l in o.splitlines() if l.startswith("VIOLATION")]
        keys = [l.strip()[:300] for l in o.splitlines() if l.strip().startswith("key=")]
        res["checks"][p] = dict(tier=a.tier, rc=rc, violations=len(viol), keys=keys[:8], wall_s=round(time.time() - t0, 1),
                                summary=[l for l in o.splitlines() if " seed=" in l][-1:] )
        res["ran"].append("VERIF_REPO=<changed worktree> ./check %s --tier %s" % (p, a.tier))
    detected = any(c["rc"] == 1 and c["violations"] > 0 for c in res["checks"].values())
    meta_out = dict(meta)
    meta_out.update(property=prop, seed_id=a.sid, evaluation=res, detected=detected,
                    detected_by=[p for p, c in res["checks"].items() if c["rc"] == 1 and c["violations"] > 0])
    json.dump(meta_out, open(os.path.join(out, "meta.json"), "w"), indent=1)
    print("%s: demo unchanged rc=%s changed rc=%s | pinned rc=%s | %s" % (
        a.sid, res["demo_unchanged"]["rc"], res["demo_changed"]["rc"], res.get("pinned_tests", {}).get("rc"),
        " ".join("%s:%s(%d viol, %.0fs)" % (p, "DETECTED" if c["rc"] == 1 else "rc=%s" % c["rc"], c["violations"], c["wall_s"]) for p, c in res["checks"].items())))
    for p, c in res["checks"].items():
        for k in c["keys"][:4]:
            print("   ", k[:260])
    if not a.keep:
        sh("git -C /repo worktree remove --force %s" % wt)
        shutil.rmtree(sdir, ignore_errors=True)


if __name__ == "__main__":
    main()
