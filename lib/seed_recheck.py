#!/usr/bin/env python3
"""Re-runs the check(s) against a stored seeded change:  seed_recheck.py <sid> [--tier quick] [--props C02,C03]

creates a scratch worktree of /repo HEAD under /tmp, applies seeded/<sid>/patch.diff, runs the checks with
VERIF_REPO=<worktree>, records the outcome in seeded/<sid>/meta.json ("rechecks") and removes the worktree."""
import argparse
import json
import os
import shutil
import subprocess
import time

VERIF = os.path.dirname(os.path.dirname(os.path.abspath(__file__)))


def sh(cmd, **kw):
    p = subprocess.run(cmd, shell=True, stdout=subprocess.PIPE, stderr=subprocess.STDOUT, text=True, errors="replace", **kw)
    return p.returncode, p.stdout


def main():
    ap = argparse.ArgumentParser()
    ap.add_argument("sid")
    ap.add_argument("--tier", default="quick")
    ap.add_argument("--props")
    ap.add_argument("--modes")
    a = ap.parse_args()
    sdir = os.path.join(VERIF, "seeded", a.sid)
    meta = json.load(open(os.path.join(sdir, "meta.json")))
    props = a.props.split(",") if a.props else [a.sid.split("-")[0].upper()]
    wt = "/tmp/recheck-%s-%d" % (a.sid, os.getpid())
    rc, o = sh("git -C /repo worktree add --detach %s HEAD" % wt)
    try:
        # patch_rebased.diff: the same change carried over to the current /repo HEAD when a later fix touched the same lines
        pf = os.path.join(sdir, "patch_rebased.diff")
        if not os.path.exists(pf):
            pf = os.path.join(sdir, "patch.diff")
        rc, o = sh("git -C %s apply %s" % (wt, pf))
        if rc != 0:
            # patches of CRLF files were stored with LF only: the context then differs in the line ending
            rc, o = sh("git -C %s apply --ignore-whitespace %s" % (wt, pf))
        if rc != 0:
            print("patch does not apply: " + o[-400:])
            return 2
        out = {}
        for p in props:
            env = dict(os.environ, VERIF_REPO=wt, VERIF_EVIDENCE_DIR=wt + ".ev", VERIF_REPLAY_DIR=wt + ".replay")
            t0 = time.time()
            rc, o = sh("./check %s --tier %s%s" % (p, a.tier, (" --modes " + a.modes) if a.modes else ""), env=env, cwd=VERIF)
            viol = [l for l in o.splitlines() if l.startswith("VIOLATION")]
            keys = [l.strip()[:300] for l in o.splitlines() if l.strip().startswith("key=")]
            out[p] = dict(tier=a.tier, rc=rc, violations=len(viol), keys=keys[:8], wall_s=round(time.time() - t0, 1))
            print("%s %s: rc=%d violations=%d (%.0fs)" % (a.sid, p, rc, len(viol), time.time() - t0))
            for k in keys[:4]:
                print("    " + k[:260])
        meta.setdefault("rechecks", []).append(dict(at=time.strftime("%Y-%m-%d %H:%M"), verif_commit=sh("git -C %s rev-parse --short HEAD" % VERIF)[1].strip(), results=out))
        if any(c["rc"] == 1 and c["violations"] > 0 for c in out.values()):
            meta["detected"] = True
            meta["detected_by"] = sorted(set(meta.get("detected_by", []) + [p for p, c in out.items() if c["rc"] == 1 and c["violations"] > 0]))
        json.dump(meta, open(os.path.join(sdir, "meta.json"), "w"), indent=1)
    finally:
        sh("git -C /repo worktree remove --force %s" % wt)
        shutil.rmtree(wt + ".ev", ignore_errors=True)
        shutil.rmtree(wt + ".replay", ignore_errors=True)
    return 0


if __name__ == "__main__":
    raise SystemExit(main())
