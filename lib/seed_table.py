#!/usr/bin/env python3
"""writes the table of seeded changes into DESIGN.md (between the SEEDED_TABLE markers) from seeded/*/meta.json"""
import glob
import json
import os
import re

VERIF = os.path.dirname(os.path.dirname(os.path.abspath(__file__)))
rows = []
for f in sorted(glob.glob(os.path.join(VERIF, "seeded", "*", "meta.json"))):
    m = json.load(open(f))
    sid = os.path.basename(os.path.dirname(f))
    ev = m.get("evaluation", {})
    first = "; ".join("%s %s: %s" % (p, c.get("tier"), "VIOLATION" if c.get("rc") == 1 and c.get("violations") else "silent (rc=%s)" % c.get("rc"))
                      for p, c in ev.get("checks", {}).items())
    later = ""
    for r in m.get("rechecks", []):
        later = "; after strengthening (%s): " % r.get("verif_commit", "?") + "; ".join(
            "%s %s" % (p, "VIOLATION" if c.get("rc") == 1 and c.get("violations") else "silent") for p, c in r["results"].items())
    keys = []
    for c in list(ev.get("checks", {}).values()) + [c for r in m.get("rechecks", []) for c in r["results"].values()]:
        for k in c.get("keys", [])[:1]:
            mm = re.match(r"key=(\S+)", k)
            if mm:
                keys.append(mm.group(1))
    summary = (m.get("summary") or "").replace("|", "/").replace("\n", " ")
    needs = (m.get("needs_to_manifest") or "")
    if isinstance(needs, list):
        needs = "; ".join(map(str, needs))
    needs = str(needs).replace("|", "/").replace("\n", " ")
    rows.append("| %s | %s | %s | %s%s | %s |" % (sid, summary[:260], needs[:220], first, later, ("`%s`" % keys[-1][:90]) if keys else "-"))
table = "| seed | change | needs to manifest | checks run against it | key reported |\n|---|---|---|---|---|\n" + "\n".join(rows)
det = sum(1 for f in glob.glob(os.path.join(VERIF, "seeded", "*", "meta.json")) if json.load(open(f)).get("detected"))
table += "\n\n%d of %d seeded changes are reported by the registered checks in their current form." % (det, len(rows))
p = os.path.join(VERIF, "DESIGN.md")
s = open(p).read()
if "SEEDED_TABLE" in s:
    s = s.replace("SEEDED_TABLE", "<!-- seeded-table-begin -->\n" + table + "\n<!-- seeded-table-end -->")
else:
    s = re.sub(r"<!-- seeded-table-begin -->.*?<!-- seeded-table-end -->", lambda _m: "<!-- seeded-table-begin -->\n" + table + "\n<!-- seeded-table-end -->", s, flags=re.S)
open(p, "w").write(s)
print("%d seeds, %d detected" % (len(rows), det))
