"""setup self-check and the hooks-off baseline run."""
import json
import os
import re
import shutil
import subprocess
import tempfile
import xml.etree.ElementTree as ET

import vcommon as vc


def _try(cmd, **kw):
    try:
        p = subprocess.run(cmd, stdout=subprocess.PIPE, stderr=subprocess.STDOUT, text=True, timeout=300, **kw)
        return p.returncode, p.stdout
    except (OSError, subprocess.TimeoutExpired) as e:
        return 127, str(e)


def selfcheck():
    """verifies that compilers and sanitizer runtimes work (builds nothing that depends on /repo:
    every check rebuilds from the working tree)."""
    ok = True
    d = tempfile.mkdtemp(prefix="celma-verif-self.")
    try:
        src = os.path.join(d, "t.cpp")
        with open(src, "w") as fh:
            fh.write("#include <thread>\n#include <cstdlib>\nint g;int main(int c,char**v){"
                     "if(c>1&&v[1][0]=='a'){volatile char*p=(char*)malloc(4);volatile int i=4;p[i]=1;return p[i];}"
                     "if(c>1&&v[1][0]=='t'){std::thread t([]{g=1;});g=2;t.join();}return 0;}\n")
        for name, cxx, flags, arg, expect in [
            ("g++ asan+ubsan", "g++", ["-fsanitize=address,undefined", "-fno-sanitize-recover=all"], "a", "heap-buffer-overflow"),
            ("g++ tsan", "g++", ["-fsanitize=thread"], "t", "data race"),
            ("clang++-14 asan", "clang++-14", ["-fsanitize=address"], "a", "heap-buffer-overflow"),
        ]:
            exe = os.path.join(d, "t-" + name.split()[0] + name.split()[1][:1])
            rc, out = _try([cxx, "-std=gnu++17", "-g", "-O1"] + flags + [src, "-o", exe, "-lpthread"])
            if rc != 0:
                print("selfcheck: %s cannot build: %s" % (name, out[-500:]))
                ok = False
                continue
            rc, out = _try([exe, arg])
            if expect not in out and "insufficient space" not in out:
                print("selfcheck: %s did not report '%s'" % (name, expect))
                ok = False
            else:
                print("selfcheck: %s ok" % name)
        rc, out = _try(["g++", "-x", "c++", "-E", "-include", "boost/lexical_cast.hpp", "/dev/null", "-o", "/dev/null"])
        print("selfcheck: boost headers %s" % ("ok" if rc == 0 else "MISSING"))
        ok &= rc == 0
        ok &= os.path.isdir(os.path.join(vc.REPO, "src", "library"))
        print("selfcheck: repository at %s %s" % (vc.REPO, "ok" if ok else "problem"))
    finally:
        shutil.rmtree(d, ignore_errors=True)
    return 0 if ok else 2


def baseline_off():
    """configure + build + ctest of the repository exactly like the pinned baseline, with the hook
    guard OFF (nothing defines CELMA_VERIF), in a scratch build directory; compares with
    BASELINE.json stable_pass."""
    base = json.load(open("/root/.vp/BASELINE.json"))
    want = set(base["stable_pass"])
    bdir = os.path.join(vc.scratch(), "baseline_build")
    cm = ["cmake", "-S", vc.REPO, "-B", bdir, "-G", "Ninja", "-DCMAKE_BUILD_TYPE=RelWithDebInfo",
          "-DBUILD_TESTING=ON", "-DCMAKE_POLICY_VERSION_MINIMUM=3.5", "-DCMAKE_COMPILE_WARNING_AS_ERROR=OFF",
          "-DCMAKE_CXX_FLAGS=-Wno-error", "-DCMAKE_C_FLAGS=-Wno-error"]
    p = subprocess.run(cm, stdout=subprocess.PIPE, stderr=subprocess.STDOUT, text=True)
    if p.returncode != 0:
        print(p.stdout[-3000:])
        print("baseline-off: configure failed")
        return 2
    p = subprocess.run(["cmake", "--build", bdir, "-j%d" % vc.NCPU, "--", "-k0"], stdout=subprocess.PIPE,
                       stderr=subprocess.STDOUT, text=True)
    print("baseline-off: build rc=%d (the pinned baseline also builds with -k0; libcelma itself does not build in this configuration)" % p.returncode)
    junit = os.path.join(vc.scratch(), "junit.xml")
    p = subprocess.run(["ctest", "--test-dir", bdir, "-j8", "--timeout", "900", "--output-junit", junit],
                       stdout=subprocess.PIPE, stderr=subprocess.STDOUT, text=True)
    passed, failed = set(), set()
    try:
        root = ET.parse(junit).getroot()
        for tc in root.iter("testcase"):
            name = tc.get("name")
            key = "%s::%s" % (name, name)
            st = tc.get("status", "")
            if tc.find("failure") is not None or tc.find("error") is not None or st in ("fail", "notrun"):
                failed.add(key)
            else:
                passed.add(key)
    except (OSError, ET.ParseError):
        for m in re.finditer(r"Test +#\d+: (\S+) \.+ +(Passed|\*\*\*Failed|\*\*\*Not Run|\*\*\*Timeout)", p.stdout):
            key = "%s::%s" % (m.group(1), m.group(1))
            (passed if m.group(2) == "Passed" else failed).add(key)
    missing = sorted(want - passed)
    print("baseline-off: %d of %d stable tests pass with the guard off; other passing: %d, failing: %s" % (
        len(want & passed), len(want), len(passed - want), sorted(failed)[:10]))
    if missing:
        print("baseline-off: NOT passing: %s" % missing)
        print(p.stdout[-3000:])
        return 1
    return 0
