"""ThreadSanitizer runs whose reports are COUNTED FROM THE LOG FILES (DESIGN.md 1.2).

A TSan harness is run with

    TSAN_OPTIONS=halt_on_error=0:second_deadlock_stack=1:history_size=7:exitcode=0:log_path=<scratch>/tsan-<tag>

(`exitcode=0`: the exit code carries no information about reports - a non-zero exit code
therefore still means "crash" to vcommon.run_worker, and the verdict about races comes only
from the parsed log files `<log_path>.<pid>`).

Which reports count - the frame rule
------------------------------------
A report block is everything from "WARNING: ThreadSanitizer: <kind>" to its "SUMMARY:" line.
Its *access stacks* are the stacks under "Read/Write/Atomic read/... of size N at ... by ..."
and "Previous read/write ... by ..." (data races, use-after-free races) - thread-creation,
mutex-creation, "Location is heap block ... allocated by" and "As if synchronized via sleep"
stacks play no role in the decision whether a report counts (the allocation stack is used
for the key only).  For the other report kinds (lock-order inversion, mutex misuse,
...) every stack that is not a thread-creation stack is treated as an access stack.

A frame is a *Celma frame* when its function lives in namespace `celma::` or its source file
lies below `<repo>/src`.  A frame is a *harness frame* when its source file lies below
/verif/harness (and it is not a Celma frame).

    min_celma_stacks=2  (C09)  the report counts only if EVERY access stack contains a Celma
        frame somewhere (not necessarily innermost: a race inside boost/libstdc++ code that
        Celma called on shared state has Celma callers in both stacks).  The harness owns no
        shared mutable state, so a report with a side outside Celma would be harness noise.
    min_celma_stacks=1  (C20)  the report counts if at least one access stack contains a Celma
        frame and every other access stack is inside Celma or inside the harness (i.e. not
        purely inside the C++ runtime).  Reason: the helpers under test publish an object /
        a flag to client code; the typical unsafe-publication race is "client reads the payload
        through the reference instance() handed out" (harness-only stack) against "payload
        constructor called from Singleton::instance" (Celma frame).  All state the harness
        itself shares between threads is std::atomic, so such a pair can only be caused by
        missing synchronisation inside the helper.

A stack TSan could not restore ("[failed to restore the stack]") has no frames: the report
is not counted but tallied (`unrestored`) - history_size=7 keeps that rare and every
configuration is run several times.

De-duplication / stable key
---------------------------
One shared object = one defect, therefore the key names the racing OBJECT when TSan knows it
and the racing functions otherwise (other report kinds: prefix tsan:<kind>):

    tsan|global:<variable>      "Location is global '...'": the variable, namespaces / template
                                arguments / parameter lists stripped
                                (tsan|global:Tokenizer::convChar2String::s, tsan|global:Singleton::mpObject)
    tsan|heap:<function>        "Location is heap block ... allocated by": innermost Celma frame of
                                the allocation stack (tsan|heap:singleton.hpp:instance)
    tsan|<funcA>|<funcB>        location on a stack / unknown: innermost Celma frame of each access
                                stack, sorted (tsan|managed_thread.hpp:ManagedThread|managed_thread.hpp:lambda);
                                a harness-only stack is `harness:<function>`

A frame is written `<source file name>:<function name>` (directories, namespaces/classes,
template arguments, parameter lists and line numbers stripped; a lambda is `lambda`); the file
name is part of it because gcc's TSan symbolizer prints unqualified function names; a frame
without debug info (COMDAT copy of an inline function) is written `Class::function`.
The INNERMOST Celma frame is used (the library function that performs or directly leads to the
access) because it names the defect, while the outermost Celma frame is nearly always the same
API entry (handler.cpp:evalArguments) for unrelated defects.  Keying by the object gives exactly
one key for the usual defect (a function-local static / static member touched from several
functions); for a whole container shared by mistake (mutant "constraint container global
again") function pairs alone gave ~60 keys, object keys about half of that (TSan prints no
location for blocks that were already freed).  The racing function pairs and the outermost
Celma frames ("API entry") of all reports of a key are listed in the detail text of the finding.
"""
import glob
import os
import re
from concurrent.futures import ThreadPoolExecutor

import vcommon as vc

_FRAME = re.compile(r"^\s*#(\d+) (.+?) (\S+?)(?::(\d+))?(?::(\d+))? \(([^()]*\+0x[0-9a-f]+)\)\s*$")
_FRAME_NOSRC = re.compile(r"^\s*#(\d+) (.+?) \(([^()]*\+0x[0-9a-f]+)\)\s*$")
_ACCESS = re.compile(r"^\s+(?:Previous )?(?:[Aa]tomic )?(?:[Rr]ead|[Ww]rite) of size \d+ at ")
_HARNESS_DIR = os.path.join(vc.VERIF, "harness") + os.sep


def tsan_options(logprefix, extra=""):
    o = "halt_on_error=0:second_deadlock_stack=1:history_size=7:exitcode=0:log_path=%s" % logprefix
    return o + (":" + extra if extra else "")


def short_func(f):
    """last identifier of a (possibly fully qualified, templated) function name:
    'celma::common::Singleton<(anonymous namespace)::PayloadA>::instance<int&>(int&)' -> 'instance',
    'instance<int&>' -> 'instance' (gcc's libbacktrace symbolizer prints unqualified names),
    '...::{lambda(int&&)#1}::operator()(int&&) const' / 'operator()' -> 'lambda'"""
    f = re.sub(r"\[abi:[^\]]*\]", "", f)
    f = re.sub(r"operator\s*\(\)", "lambda", f)
    f = re.sub(r"operator\s*(<<=?|>>=?|<=|>=|<|>|->)", "operator_x", f)
    for op, cl in (("<", ">"), ("(", ")"), ("{", "}")):   # template arguments, parameter lists, {lambda...}
        depth, out = 0, []
        for ch in f:
            if ch == op:
                depth += 1
            elif ch == cl:
                depth -= 1
            elif depth == 0:
                out.append(ch)
        f = "".join(out)
    f = re.sub(r"\s+const\b", "", f).strip()
    if " " in f:           # leading return type
        f = f.split(" ")[-1]
    parts = [p for p in f.split("::") if p]
    return parts[-1] if parts else "?"


def _strip_args(f):
    for op, cl in (("<", ">"), ("(", ")")):
        depth, out = 0, []
        for ch in f:
            if ch == op:
                depth += 1
            elif ch == cl:
                depth = max(0, depth - 1)
            elif depth == 0:
                out.append(ch)
        f = "".join(out)
    return f


def _qualified(func):
    """'T& std::vector<celma::X>::emplace_back<celma::X>(celma::X&&)' -> 'std::vector::emplace_back':
    qualified name of the function itself, without return type, template and call arguments"""
    f = re.sub(r"\[abi:[^\]]*\]", "", func)
    f = re.sub(r"operator\s*\(\)", "lambda", f)
    f = re.sub(r"operator\s*(<<=?|>>=?|<=>?|>=|<|>|->\*?)", "operator_x", f)
    f = re.sub(r"\{lambda\(.*?\)#\d+\}", "lambda", f)
    f = _strip_args(f)
    f = re.sub(r"\s+(const|volatile)\b", "", f).strip()
    f = re.sub(r"operator\s+", "operator_", f)
    return f.split(" ")[-1] if f else f


def is_celma_frame(frame, srcroot):
    """source file below <repo>/src, or the function itself (not its return type or one of its
    template / call arguments, e.g. std::__invoke<celma::...>) is a member of namespace celma"""
    func, path = frame
    if path and path.startswith(srcroot):
        return True
    return "celma::" in _qualified(func)


def frame_name(frame):
    """stable name of a frame: '<source file>:<function>' (no directories, no line numbers)"""
    func, path = frame
    if path and path != "<null>":
        return "%s:%s" % (os.path.basename(path), short_func(func))
    # no debug info for this address (COMDAT copy of an inline function): the symbol table gives
    # the qualified name -> 'Class::function'
    q = [p for p in _qualified(func).split("::") if p]
    return "::".join(q[-2:]) if q else "?"


_NS = ("celma", "common", "detail", "prog_args", "container", "format", "log", "appl", "files", "filter",
       "formatting", "filename", "indirect_access", "")


def global_name(name):
    """'celma::common::Tokenizer::convChar2String(char)::s' -> 'Tokenizer::convChar2String::s'"""
    q = [p for p in _qualified(name).split("::") if p not in _NS]
    return "::".join(q[-3:]) if q else "?"


class Stack:
    def __init__(self, header):
        self.header = header.strip()
        self.frames = []          # (func, path or None)
        self.unrestored = False

    def celma_frames(self, srcroot):
        return [f for f in self.frames if is_celma_frame(f, srcroot)]

    def harness_frames(self, srcroot):
        return [f for f in self.frames if f[1] and f[1].startswith(_HARNESS_DIR) and not is_celma_frame(f, srcroot)]


class Report:
    def __init__(self, kind, text):
        self.kind, self.text = kind, text
        self.stacks = []
        self.funcs = []
        self.key = None
        self.entry = []
        self.counted = False
        self.why = ""
        self.loc_kind = None      # 'global' | 'heap' | None (stack, TLS, unknown)
        self.loc_name = None      # name of the global
        self.alloc = None         # Stack: where the heap block was allocated


def _parse_block(text):
    m = re.search(r"WARNING: ThreadSanitizer: (.+?) \(pid=\d+\)", text)
    kind = m.group(1).strip() if m else "unknown"
    rep = Report(kind, text)
    is_race = any(_ACCESS.match(l) for l in text.splitlines())
    cur, take = None, False
    for line in text.splitlines():
        if not line.strip():
            cur = None
            continue
        if line.startswith("  ") and not line.startswith("    ") and not line.lstrip().startswith("#"):
            # a section header
            hdr = line.strip()
            lm = re.match(r"Location is global '(.+)' of size \d+", hdr)
            if lm:
                rep.loc_kind, rep.loc_name = "global", lm.group(1)
                cur = None
                continue
            if re.match(r"Location is heap block of size \d+ at \S+ allocated by", hdr):
                rep.loc_kind = "heap"
                rep.alloc = cur = Stack(hdr)
                continue
            if is_race:
                take = bool(_ACCESS.match(line))
            else:
                take = not re.match(r"Thread T\d+ .*created by|Mutex M\d+ .*created at|Location is|As if synchronized", hdr)
            cur = Stack(hdr) if take else None
            if cur is not None:
                rep.stacks.append(cur)
            continue
        if cur is None:
            continue
        if "[failed to restore the stack]" in line:
            cur.unrestored = True
            continue
        fm = _FRAME.match(line)
        if fm:
            cur.frames.append((fm.group(2), fm.group(3)))
            continue
        fm = _FRAME_NOSRC.match(line)
        if fm:
            cur.frames.append((fm.group(2), None))
    return rep


def parse_reports(text):
    """-> list of Report (one per WARNING..SUMMARY block)"""
    reps, cur = [], None
    for line in text.splitlines():
        if "WARNING: ThreadSanitizer:" in line:
            if cur is not None:
                reps.append(_parse_block("\n".join(cur)))
            cur = [line]
        elif cur is not None:
            cur.append(line)
            if line.startswith("SUMMARY: ThreadSanitizer:"):
                reps.append(_parse_block("\n".join(cur)))
                cur = None
    if cur is not None:
        reps.append(_parse_block("\n".join(cur)))
    return reps


def judge(rep, min_celma_stacks=2, srcroot=None):
    """applies the frame rule; sets rep.counted / rep.key / rep.entry / rep.why"""
    srcroot = srcroot or os.path.join(vc.REPO, "src")
    if not srcroot.endswith(os.sep):
        srcroot += os.sep
    stacks = rep.stacks
    if not stacks:
        rep.why = "no access stack"
        return rep
    if any(s.unrestored or not s.frames for s in stacks):
        rep.why = "unrestored"
        return rep
    names, n_celma, ok = [], 0, True
    for s in stacks:
        cf = s.celma_frames(srcroot)
        if cf:
            n_celma += 1
            names.append(frame_name(cf[0]))
            rep.entry.append(frame_name(cf[-1]))
        else:
            hf = s.harness_frames(srcroot)
            if hf:
                names.append("harness:" + short_func(hf[0][0]))
                rep.entry.append("harness")
            else:
                names.append("runtime")
                rep.entry.append("runtime")
                ok = False
    need = len(stacks) if min_celma_stacks >= 2 else 1
    if n_celma < need:
        rep.why = "outside Celma (%d of %d stacks with a Celma frame)" % (n_celma, len(stacks))
        return rep
    if not ok:
        rep.why = "a stack purely inside the runtime"
        return rep
    if len(names) == 1:
        names.append("-")
    names = sorted(names[:2]) + sorted(names[2:])
    rep.funcs = names[:2]
    prefix = "tsan" if rep.kind == "data race" else "tsan:" + re.sub(r"[^\w]+", "-", rep.kind).strip("-")
    if rep.loc_kind == "global":
        rep.key = "%s|global:%s" % (prefix, global_name(rep.loc_name))
    elif rep.loc_kind == "heap" and rep.alloc is not None and rep.alloc.frames:
        cf = rep.alloc.celma_frames(srcroot)
        hf = rep.alloc.harness_frames(srcroot)
        rep.key = "%s|heap:%s" % (prefix, frame_name(cf[0]) if cf else ("harness:" + short_func(hf[0][0]) if hf else "runtime"))
    else:
        rep.key = "|".join([prefix] + names[:2])
    rep.counted = True
    return rep


class TsanResult:
    def __init__(self):
        self.res = vc.WorkerResult()
        self.raw = 0               # report blocks in the log files
        self.counted = 0           # blocks that passed the frame rule
        self.unrestored = 0
        self.ignored = {}          # reason -> count
        self.by_key = {}           # key -> dict(count, sample, entry, batch=(first,count), runs)
        self.runs = 0


_ERRBLOCK = re.compile(r"==\d+==\s*ERROR: ThreadSanitizer: (\S+).*?(?=\n==\d+==\s*ABORTING|\Z)", re.S)


def _classify_crashes(text, r, srcroot):
    """a process that died under TSan (SEGV, failed CHECK ...) wrote its report into the log
    file, not to stderr: give run_worker's 'crash:unknown' entries their kind and function"""
    blocks = list(_ERRBLOCK.finditer(text))
    for c in r.crashes:
        if c["kind"] != "crash:unknown" or not blocks:
            continue
        b = blocks.pop(0)
        c["kind"] = "tsan:" + b.group(1)
        c["report"] = b.group(0)[:6000]
        for line in b.group(0).splitlines():
            fm = _FRAME.match(line)
            if fm and is_celma_frame((fm.group(2), fm.group(3)), srcroot):
                c["func"] = frame_name((fm.group(2), fm.group(3)))
                break


def _collect(logprefix, min_celma_stacks, tr, batch, r=None):
    for p in sorted(glob.glob(logprefix + ".*")):
        try:
            with open(p, "r", errors="replace") as fh:
                text = fh.read()
            os.unlink(p)
        except OSError:
            continue
        if r is not None and r.crashes:
            _classify_crashes(text, r, os.path.join(vc.REPO, "src") + os.sep)
        for rep in parse_reports(text):
            tr.raw += 1
            judge(rep, min_celma_stacks)
            if not rep.counted:
                if rep.why == "unrestored":
                    tr.unrestored += 1
                tr.ignored[rep.why] = tr.ignored.get(rep.why, 0) + 1
                if len(tr.ignored) < 20:
                    tr.ignored.setdefault("sample: " + rep.why, rep.text[:3000])
                continue
            tr.counted += 1
            e = tr.by_key.get(rep.key)
            if e is None:
                e = tr.by_key[rep.key] = dict(count=0, sample=rep.text[:24000], entry=set(), pairs={},
                                              batch=batch, kind=rep.kind)
            e["count"] += 1
            e["entry"].update(rep.entry)
            pr = " <-> ".join(rep.funcs)
            e["pairs"][pr] = e["pairs"].get(pr, 0) + 1


def run_batches(exe, base_args, batches, tag, min_celma_stacks=2, repeat=1, parallel=4, timeout=900,
                flavour="tsan", env_extra=None, tsan_extra=""):
    """Runs `exe base_args --start f --count c` for every (f, c) in `batches`, each `repeat`
    times, every run with its own TSan log prefix below vcommon.scratch().
    -> TsanResult (merged WorkerResult of the vh protocol + parsed reports)."""
    tr = TsanResult()
    logdir = os.path.join(vc.scratch(), "tsanlogs")
    os.makedirs(logdir, exist_ok=True)
    jobs = []
    for (f, c) in batches:
        for rep in range(repeat):
            jobs.append((f, c, rep))

    def one(j):
        f, c, rep = j
        prefix = os.path.join(logdir, "%s-%d-%d-r%d" % (tag, f, c, rep))
        env = dict(env_extra or {})
        env["TSAN_OPTIONS"] = tsan_options(prefix, tsan_extra)
        args = list(base_args) + ["--rep", str(rep)]
        r = vc.run_worker(exe, args, flavour, f, c, "%s-%d-r%d" % (tag, f, rep), timeout, env)
        return j, prefix, r

    with ThreadPoolExecutor(max_workers=max(1, parallel)) as ex:
        for j, prefix, r in ex.map(one, jobs):
            tr.runs += 1
            _collect(prefix, min_celma_stacks, tr, (j[0], j[1]), r)
            tr.res.merge(r)
    return tr


def absorb(chk, res, mode, replay_base):
    """like Check.absorb, but the stable keys do not contain the mode: the same predicate
    violated in the tsan and in the plain pass is one finding (`<predicate>`), a process that died
    is `crash|<operation>|<kind>|<function>`."""
    chk.add_stats(res.stats, mode + ".")
    for s in res.samples:
        if len([x for x in chk.coverage["samples"] if x.startswith(mode + ":")]) < 4 and len(chk.coverage["samples"]) < 16:
            chk.coverage["samples"].append("%s: %s" % (mode, s))
    for key, detail, idx in res.viols:
        chk.report(key, "[mode %s] %s" % (mode, detail), dict(replay_base, mode=mode, idx=idx, count=1))
    for c in res.crashes:
        op = c["descr"].split(" ")[0] if c["descr"] else "?"
        key = "crash|%s|%s|%s" % (op, c["kind"], c["func"])
        chk.report(key, "[mode %s] %s" % (mode, c["descr"]),
                   dict(replay_base, mode=mode, idx=c["idx"], count=1, descr=c["descr"], report=c["report"]))
    for h in res.hangs:
        op = h["descr"].split(" ")[0] if h["descr"] else "?"
        chk.report("hang|%s" % op, "[mode %s] %s" % (mode, h["descr"]),
                   dict(replay_base, mode=mode, idx=h["idx"], count=1, descr=h["descr"]))
    chk.infra += res.infra


def report_all(chk, tr, mode, replay_base):
    """feeds a TsanResult into a vcommon.Check: behavioural violations / crashes / hangs via
    Check.absorb, one finding per de-duplicated TSan key, counters into the evidence."""
    absorb(chk, tr.res, mode, replay_base)
    chk.count(mode + ".tsan_runs", tr.runs)
    chk.count(mode + ".tsan_reports_raw", tr.raw)
    chk.count(mode + ".tsan_reports_counted", tr.counted)
    chk.count(mode + ".tsan_reports_dedup", len(tr.by_key))
    chk.count(mode + ".tsan_reports_unrestored_stack", tr.unrestored)
    chk.count(mode + ".tsan_reports_outside_rule", tr.raw - tr.counted - tr.unrestored)
    for key, e in sorted(tr.by_key.items()):
        pairs = sorted(e["pairs"].items(), key=lambda kv: -kv[1])
        detail = "%d ThreadSanitizer report(s) '%s' in mode %s; racing functions: %s%s; API entry frames: %s" % (
            e["count"], e["kind"], mode, "; ".join("%s (x%d)" % kv for kv in pairs[:6]),
            " ... +%d more pairs" % (len(pairs) - 6) if len(pairs) > 6 else "", ", ".join(sorted(e["entry"])))
        rb = dict(replay_base, mode=mode, idx=e["batch"][0], count=e["batch"][1], tsan_key=key, report=e["sample"])
        for _ in range(e["count"]):
            chk.report(key, detail, rb)


# ---------------------------------------------------------------- spec driver (C09, C20)

def _tv(v, tier):
    if isinstance(v, dict):
        return v.get(tier, v.get("quick"))
    return v


def _mode_args(m, tier, seed):
    args = ["--mode", m.get("hmode", m["name"]), "--seed", str(seed)]
    for k, v in (m.get("args") or {}).items():
        args += ["--" + k, str(_tv(v, tier))]
    return args


def _build(spec, m):
    h = spec["harnesses"][m.get("harness", spec.get("default_harness"))]
    return h, vc.build_harness(h["name"], h["sources"], m["flavour"], with_lib=h.get("with_lib", True),
                               extra_cflags=h.get("cflags", ()), extra_ldflags=h.get("ldflags", ()))


def run_spec(spec, tier, seed, only_modes=None):
    """like runner.run_spec, but modes of flavour `tsan` are run through run_batches (reports
    counted from the log files); all other modes through vcommon.run_pool."""
    chk = vc.Check(spec["prop"], tier, seed, spec.get("level", "exploration"))
    chk.coverage["rule"] = spec["rule"]
    chk.assumptions = list(spec.get("assumptions", []))
    try:
        todo = []
        for m in spec["modes"]:
            if only_modes and m["name"] not in only_modes:
                continue
            if m.get("tiers") and tier not in m["tiers"]:
                continue
            todo.append(m)
        # build everything first (cached); the flavours in parallel, their long compile tails overlap
        vc.scratch()
        uniq = {}
        for m in todo:
            uniq.setdefault((m.get("harness", spec.get("default_harness")), m["flavour"]), m)
        with ThreadPoolExecutor(max_workers=max(1, len(uniq))) as ex:
            list(ex.map(lambda mm: _build(spec, mm), uniq.values()))
        distinct = 0
        for m in todo:
            h, exe = _build(spec, m)
            cases = int(_tv(m["cases"], tier))
            if cases <= 0:
                continue
            args = _mode_args(m, tier, seed)
            name = m["name"]
            replay_base = dict(harness=h["name"], flavour=m["flavour"], args=args)
            timeout = _tv(m.get("timeout", 1800), tier)
            if m["flavour"] == "tsan":
                chunk = int(_tv(m.get("chunk", 1), tier))
                batches = [(f, min(chunk, cases - f)) for f in range(0, cases, chunk)]
                tr = run_batches(exe, args, batches, "%s-%s" % (spec["prop"], name),
                                 min_celma_stacks=m.get("min_celma_stacks", 2),
                                 repeat=int(_tv(m.get("repeat", 1), tier)),
                                 parallel=int(_tv(m.get("parallel", 4), tier)), timeout=timeout,
                                 env_extra=m.get("env"))
                res = tr.res
                report_all(chk, tr, name, replay_base)
                ign = {k: v for k, v in tr.ignored.items() if not k.startswith("sample: ")}
                if ign:
                    chk.coverage.setdefault("tsan_reports_not_counted", {})[name] = ign
            else:
                res = vc.run_pool(exe, args, m["flavour"], cases, "%s-%s" % (spec["prop"], name),
                                  nworkers=_tv(m.get("workers"), tier), timeout=timeout, env_extra=m.get("env"))
                absorb(chk, res, name, replay_base)
            ev = res.stats.get(m.get("eval_stat", "cases"), 0)
            chk.coverage["evaluations"] += ev
            d = len(res.hashes)
            distinct += d
            chk.count(name + ".distinct_nontrivial", d)
            if ev == 0 and not res.infra:
                chk.infra.append("mode %s observed no case" % name)
            for st in m.get("require_stats", []):
                if res.stats.get(st, 0) == 0:
                    chk.infra.append("mode %s: counter %s stayed 0 (monitor observed nothing)" % (name, st))
            for st in m.get("forbid_stats", []):
                if res.stats.get(st, 0) != 0:
                    chk.infra.append("mode %s: harness self-check counter %s = %d" % (name, st, res.stats[st]))
        chk.coverage["distinct_nontrivial"] = distinct
    except vc.HarnessError as e:
        chk.infra.append(str(e))
    return chk.finish()


def replay(spec, path, repeat=5):
    import json
    import subprocess
    import sys
    obj = json.load(open(path))
    mode = obj.get("mode")
    ms = [x for x in spec["modes"] if x["name"] == mode]
    if not ms:
        print("replay: unknown mode %r" % mode)
        return vc.EXIT_HARNESS
    m = ms[0]
    h, exe = _build(spec, m)
    args = obj.get("args") or _mode_args(m, obj.get("tier", "quick"), obj.get("seed", 1))
    idx = int(obj.get("idx") or 0)
    cnt = int(obj.get("count") or 1)
    bad = False
    if m["flavour"] == "tsan":
        print("replay: %s %s --start %d --count %d  (x%d, TSan reports read from the log files)" % (
            exe, " ".join(args), idx, cnt, repeat))
        sys.stdout.flush()
        tr = run_batches(exe, list(args) + ["--verbose", "1"], [(idx, cnt)], "replay",
                         min_celma_stacks=m.get("min_celma_stacks", 2), repeat=repeat, parallel=1,
                         env_extra=m.get("env"))
        for key, e in sorted(tr.by_key.items()):
            print("TSAN-REPORT key=%s (x%d)\n%s" % (key, e["count"], e["sample"]))
            bad = True
        for key, detail, i in tr.res.viols:
            print("VIOL %s [%s] %s" % (key, i, detail))
            bad = True
        for c in tr.res.crashes:
            print("CRASH %s %s at %s\n%s" % (c["kind"], c["func"], c["descr"], c["report"]))
            bad = True
        for s in tr.res.samples[:20]:
            print("SAMPLE " + s)
        print("replay: %d raw TSan reports, %d counted, %d keys" % (tr.raw, tr.counted, len(tr.by_key)))
    else:
        argv = [exe] + list(args) + ["--start", str(idx), "--count", str(cnt), "--verbose", "1"]
        print("replay: " + " ".join(argv))
        sys.stdout.flush()
        for _ in range(repeat):
            p = subprocess.run(argv, env=vc.flavour_env(m["flavour"], m.get("env")), stdout=subprocess.PIPE,
                               stderr=subprocess.STDOUT, text=True, errors="replace")
            if p.returncode != 0 or "\nVIOL " in "\n" + p.stdout:
                print(p.stdout[-8000:])
                bad = True
                break
        else:
            print(p.stdout[-3000:])
    if bad:
        print("VIOLATION property=%s replay=%s" % (spec["prop"], path))
        return vc.EXIT_VIOLATION
    print("replay: case passed")
    return vc.EXIT_OK
