"""Common machinery of the Celma runtime-monitoring checks.

build driver (content-hash cached, always derived from the *current* working
tree of the repository), worker pool with crash continuation, known-findings
matcher, evidence writer.
"""
import atexit
import fcntl
import glob
import hashlib
import json
import mmap
import os
import re
import shutil
import signal
import struct
import subprocess
import sys
import tempfile
import time
from concurrent.futures import ThreadPoolExecutor

VERIF = os.path.dirname(os.path.dirname(os.path.abspath(__file__)))
REPO = os.environ.get("VERIF_REPO", "/repo")
NCPU = int(os.environ.get("VERIF_JOBS", str(os.cpu_count() or 4)))
CACHE = os.environ.get("VERIF_CACHE", os.path.join(VERIF, ".cache"))
GUARD = "CELMA_VERIF"

EXIT_OK, EXIT_VIOLATION, EXIT_HARNESS = 0, 1, 2


class HarnessError(Exception):
    """infrastructure failure -> exit 2, never a VIOLATION"""


# ---------------------------------------------------------------- scratch

_scratch = None


def scratch():
    global _scratch
    if _scratch is None:
        base = os.environ.get("TMPDIR", "/tmp")
        _scratch = tempfile.mkdtemp(prefix="celma-verif.", dir=base)
        atexit.register(_cleanup)
    return _scratch


def _cleanup():
    global _scratch
    if _scratch and os.path.isdir(_scratch) and not os.environ.get("VERIF_KEEP"):
        shutil.rmtree(_scratch, ignore_errors=True)
    _scratch = None


def _sigterm(signum, frame):
    _cleanup()
    os._exit(EXIT_HARNESS)


signal.signal(signal.SIGTERM, _sigterm)

# ---------------------------------------------------------------- flavours

COMMON_WARN = ["-w"]
FLAVOURS = {
    "asan": dict(
        cxx="g++",
        cflags=["-std=gnu++17", "-O1", "-g", "-fno-omit-frame-pointer",
                "-fsanitize=address,undefined", "-fno-sanitize=vptr",
                "-fno-sanitize-recover=all", "-D_GLIBCXX_ASSERTIONS",
                "-D" + GUARD],
        ldflags=["-fsanitize=address,undefined"],
        env={"ASAN_OPTIONS": "abort_on_error=1:detect_leaks=0:strict_string_checks=1:"
                             "detect_stack_use_after_return=1:allocator_may_return_null=0:"
                             "max_allocation_size_mb=1024:handle_abort=0:symbolize=1",
             "UBSAN_OPTIONS": "print_stacktrace=1:symbolize=1"},
    ),
    "tsan": dict(
        cxx="g++",
        cflags=["-std=gnu++17", "-O1", "-g", "-fno-omit-frame-pointer",
                "-fsanitize=thread", "-D" + GUARD],
        ldflags=["-fsanitize=thread"],
        env={},
    ),
    "fast": dict(
        cxx="g++",
        cflags=["-std=gnu++17", "-O2", "-g", "-D" + GUARD],
        ldflags=[],
        env={},
    ),
    "plain": dict(   # no sanitizer, moderate optimisation, assertions on
        cxx="g++",
        cflags=["-std=gnu++17", "-O1", "-g", "-D_GLIBCXX_ASSERTIONS", "-D" + GUARD],
        ldflags=[],
        env={},
    ),
    "fuzz": dict(
        cxx="clang++-14",
        cflags=["-std=gnu++17", "-O1", "-g", "-fno-omit-frame-pointer",
                "-fsanitize=fuzzer-no-link,address,undefined",
                "-fno-sanitize=vptr,object-size", "-fno-sanitize-recover=all",
                "-D" + GUARD],
        ldflags=["-fsanitize=fuzzer,address,undefined"],
        env={"ASAN_OPTIONS": "abort_on_error=1:detect_leaks=0:allocator_may_return_null=0:"
                             "max_allocation_size_mb=1024:quarantine_size_mb=8",
             "UBSAN_OPTIONS": "print_stacktrace=1"},
    ),
}

LIB_GLOBS = [
    "appl/*.cpp", "common/*.cpp", "common/detail/*.cpp",
    "container/*.cpp", "container/detail/*.cpp",
    "format/*.cpp", "format/detail/*.cpp",
    "log/*.cpp", "log/detail/*.cpp", "log/filename/*.cpp", "log/files/*.cpp",
    "log/filter/*.cpp", "log/filter/detail/*.cpp", "log/formatting/*.cpp",
    "prog_args/*.cpp", "prog_args/detail/*.cpp",
    "indirect_access/*.cpp", "indirect_access/detail/*.cpp",
]
LINK_LIBS = ["-lboost_system", "-lboost_filesystem", "-lpthread", "-ldl"]


def log(msg):
    sys.stderr.write("[verif] %s\n" % msg)
    sys.stderr.flush()


# ---------------------------------------------------------------- hashing / cache

_tree_hash = None


def tree_hash():
    """sha256 over every file below <repo>/src and the top-level CMakeLists.txt
    (names and contents) - i.e. the working tree as it is now."""
    global _tree_hash
    if _tree_hash is not None:
        return _tree_hash
    h = hashlib.sha256()
    files = []
    for root, dirs, names in os.walk(os.path.join(REPO, "src")):
        dirs.sort()
        for n in sorted(names):
            files.append(os.path.join(root, n))
    files.append(os.path.join(REPO, "CMakeLists.txt"))
    for f in files:
        try:
            with open(f, "rb") as fh:
                data = fh.read()
        except OSError:
            continue
        h.update(os.path.relpath(f, REPO).encode())
        h.update(b"\0")
        h.update(hashlib.sha256(data).digest())
    _tree_hash = h.hexdigest()[:20]
    return _tree_hash


def _files_hash(paths, extra=""):
    h = hashlib.sha256()
    for p in paths:
        h.update(os.path.basename(p).encode())
        with open(p, "rb") as fh:
            h.update(hashlib.sha256(fh.read()).digest())
    h.update(extra.encode())
    return h.hexdigest()[:16]


def _cache_dir():
    d = os.path.join(CACHE, tree_hash())
    os.makedirs(d, exist_ok=True)
    os.utime(d, None)
    return d


def _evict_cache(keep=int(os.environ.get("VERIF_CACHE_KEEP", "6"))):
    try:
        ents = [os.path.join(CACHE, e) for e in os.listdir(CACHE)]
        ents = [e for e in ents if os.path.isdir(e)]
        ents.sort(key=lambda e: os.path.getmtime(e), reverse=True)
        # a directory used during the last hours may belong to a check that is still running (its binaries are executed
        # again and again, libFuzzer's fork mode even re-executes itself): only older ones are removed
        now = time.time()
        for e in ents[keep:]:
            if now - os.path.getmtime(e) > 6 * 3600:
                shutil.rmtree(e, ignore_errors=True)
    except OSError:
        pass


class _Lock:
    def __init__(self, path):
        self.path = path

    def __enter__(self):
        self.fh = open(self.path, "w")
        fcntl.flock(self.fh, fcntl.LOCK_EX)
        return self

    def __exit__(self, *a):
        fcntl.flock(self.fh, fcntl.LOCK_UN)
        self.fh.close()


# ---------------------------------------------------------------- building

def _gen_version_header(incdir):
    tmpl = os.path.join(REPO, "src/celma/detail/celma_version.hpp.in")
    txt = open(tmpl).read()
    vals = {"MAJORVERSION": "1", "MINORVERSION": "47", "RELEASE_VERSION": "0", "PATCHLEVEL": "0"}
    try:
        cm = open(os.path.join(REPO, "CMakeLists.txt")).read()
        for k in list(vals):
            m = re.search(r"set\(\s*%s\s+(\d+)\s*\)" % k, cm)
            if m:
                vals[k] = m.group(1)
    except OSError:
        pass
    for k, v in vals.items():
        txt = txt.replace("@%s@" % k, v)
    os.makedirs(os.path.join(incdir, "celma"), exist_ok=True)
    with open(os.path.join(incdir, "celma", "celma_version.hpp"), "w") as fh:
        fh.write(txt)


def include_flags():
    cd = _cache_dir()
    inc = os.path.join(cd, "inc")
    if not os.path.exists(os.path.join(inc, "celma", "celma_version.hpp")):
        with _Lock(os.path.join(cd, "inc.lock")):
            _gen_version_header(inc)
    return ["-I" + inc, "-I" + os.path.join(REPO, "src"), "-I" + os.path.join(VERIF, "harness")]


def _compile_many(jobs, what):
    """jobs: list of (argv, label). Runs NCPU in parallel; raises HarnessError with
    the compiler output when one fails."""
    def one(j):
        argv, label = j
        p = subprocess.run(argv, stdout=subprocess.PIPE, stderr=subprocess.STDOUT, text=True)
        return label, p.returncode, p.stdout
    with ThreadPoolExecutor(max_workers=NCPU) as ex:
        res = list(ex.map(one, jobs))
    bad = [(l, o) for l, rc, o in res if rc != 0]
    if bad:
        raise HarnessError("build of %s failed: %s\n%s" % (what, bad[0][0], bad[0][1][-4000:]))


def build_lib(flavour):
    """static archive of src/library/** in the given flavour, built from the
    current working tree (cached under the hash of that tree)."""
    fl = FLAVOURS[flavour]
    cd = _cache_dir()
    ar = os.path.join(cd, "libcelma-%s.a" % flavour)
    with _Lock(os.path.join(cd, "lib-%s.lock" % flavour)):
        if os.path.exists(ar):
            return ar
        t0 = time.time()
        inc = include_flags()
        srcs = []
        for g in LIB_GLOBS:
            srcs += sorted(glob.glob(os.path.join(REPO, "src/library", g)))
        if len(srcs) < 50:
            raise HarnessError("library sources not found below %s" % REPO)
        odir = tempfile.mkdtemp(prefix="obj-%s." % flavour, dir=scratch())
        jobs, objs = [], []
        for i, s in enumerate(srcs):
            o = os.path.join(odir, "%03d_%s.o" % (i, os.path.basename(s)[:-4]))
            objs.append(o)
            jobs.append(([fl["cxx"]] + fl["cflags"] + COMMON_WARN + inc + ["-c", s, "-o", o], s))
        _compile_many(jobs, "libcelma[%s]" % flavour)
        tmp = ar + ".tmp%d" % os.getpid()
        subprocess.run(["ar", "rcs", tmp] + objs, check=True)
        os.replace(tmp, ar)
        shutil.rmtree(odir, ignore_errors=True)
        log("built libcelma[%s] from %s in %.1fs" % (flavour, REPO, time.time() - t0))
        _evict_cache()
    return ar


def build_harness(name, sources, flavour, with_lib=True, extra_cflags=(), extra_ldflags=(), deps=()):
    """compile harness/<sources> (+ link the library) -> path of the binary."""
    fl = FLAVOURS[flavour]
    cd = _cache_dir()
    srcs = [s if os.path.isabs(s) else os.path.join(VERIF, "harness", s) for s in sources]
    hdrs = [os.path.join(VERIF, "harness", "vh.hpp")] + \
        [d if os.path.isabs(d) else os.path.join(VERIF, "harness", d) for d in deps]
    key = _files_hash(srcs + hdrs, " ".join(fl["cflags"]) + " ".join(extra_cflags) + " ".join(extra_ldflags) + str(with_lib))
    exe = os.path.join(cd, "%s-%s-%s" % (name, flavour, key))
    lib = build_lib(flavour) if with_lib else None
    with _Lock(os.path.join(cd, "h-%s-%s.lock" % (name, flavour))):
        if os.path.exists(exe):
            return exe
        t0 = time.time()
        inc = include_flags()
        odir = tempfile.mkdtemp(prefix="hobj-%s." % name, dir=scratch())
        jobs, objs = [], []
        for i, s in enumerate(srcs):
            o = os.path.join(odir, "%d_%s.o" % (i, os.path.basename(s).rsplit(".", 1)[0]))
            objs.append(o)
            jobs.append(([fl["cxx"]] + fl["cflags"] + COMMON_WARN + list(extra_cflags) + inc + ["-c", s, "-o", o], s))
        _compile_many(jobs, "harness %s[%s]" % (name, flavour))
        tmp = exe + ".tmp%d" % os.getpid()
        cmd = [fl["cxx"]] + fl["ldflags"] + objs + ([lib] if lib else []) + list(extra_ldflags) + LINK_LIBS + ["-o", tmp]
        p = subprocess.run(cmd, stdout=subprocess.PIPE, stderr=subprocess.STDOUT, text=True)
        if p.returncode != 0:
            raise HarnessError("link of %s failed:\n%s" % (name, p.stdout[-4000:]))
        os.replace(tmp, exe)
        shutil.rmtree(odir, ignore_errors=True)
        log("built harness %s[%s] in %.1fs" % (name, flavour, time.time() - t0))
    return exe


def flavour_env(flavour, extra=None):
    env = dict(os.environ)
    env.update(FLAVOURS[flavour]["env"])
    # temporary directories of the harnesses (log files of C15, argument files of C09) live inside the scratch directory of
    # this check: removed with it, also when a harness process is killed or aborts
    env["TMPDIR"] = scratch()
    if extra:
        env.update(extra)
    return env


# ---------------------------------------------------------------- sanitizer report parsing

_FRAME = re.compile(r"^\s*#(\d+) 0x[0-9a-f]+ (?:in )?(.+?)(?: (/[^\s:]+)(?::(\d+))?(?::\d+)?)?\s*$")


def _short_func(f):
    """'celma::common::FixedString<5ul>::insert(unsigned long, ...)' -> 'FixedString::insert'"""
    f = re.sub(r"\[abi:[^\]]*\]", "", f)
    # drop the argument list
    depth, out = 0, []
    for ch in f:
        if ch == "<":
            depth += 1
        elif ch == ">":
            depth -= 1
        elif depth == 0:
            out.append(ch)
    f = "".join(out)
    f = f.split("(")[0].strip()
    f = re.sub(r"^(?:.* )?((?:\w+::)*~?\w+)$", r"\1", f) if " " in f else f
    parts = [p for p in f.split("::") if p]
    parts = [p for p in parts if p not in ("celma", "common", "detail", "prog_args", "container", "format", "log", "appl", "files", "filter", "formatting", "filename")]
    return "::".join(parts[-2:]) if parts else f


def classify_report(text):
    """-> (kind, innermost celma function) from a sanitizer / assertion report"""
    kind = None
    m = re.search(r"ERROR: AddressSanitizer: ([\w-]+)", text)
    if m:
        kind = "asan:" + m.group(1)
        if m.group(1) == "SEGV":
            kind = "asan:SEGV"
    if kind is None and re.search(r"SUMMARY: libFuzzer: (out-of-memory|timeout)", text):
        kind = "limit:libfuzzer-" + re.search(r"SUMMARY: libFuzzer: ([\w-]+)", text).group(1)
    if kind in ("asan:allocation-size-too-big", "asan:out-of-memory", "asan:rss-limit-exceeded", "asan:calloc-overflow"):
        kind = "limit:" + kind[5:]
    elif kind in ("asan:requested", "asan:allocator"):
        # "requested allocation size 0x.. exceeds maximum supported size" / "allocator is out of memory trying to allocate"
        kind = "limit:allocation-size-too-big"
    if kind is None:
        m = re.search(r"runtime error: (.+)", text)
        if m:
            msg = m.group(1)
            msg = re.sub(r"0x[0-9a-f]+", "P", msg)
            msg = re.sub(r"-?\d+", "N", msg)
            msg = re.sub(r"'[^']*'", "T", msg)
            kind = "ubsan:" + "-".join(msg.split()[:6])
    if kind is None:
        m = re.search(r"Assertion '([^']*)' failed", text)
        if m:
            kind = "assert:" + re.sub(r"\W+", "_", m.group(1))[:40]
    if kind is None:
        m = re.search(r"Assertion `([^']*)' failed", text)
        if m:
            kind = "assert:" + re.sub(r"\W+", "_", m.group(1))[:40]
    if kind is None:
        m = re.search(r"terminate called after throwing an instance of '([^']+)'", text)
        if m:
            kind = "terminate:" + m.group(1)
        elif "terminate called" in text:
            kind = "terminate"
    if kind is None:
        m = re.search(r"WARNING: ThreadSanitizer: ([\w -]+?) \(", text)
        if m:
            kind = "tsan:" + m.group(1).replace(" ", "-")
    func = None
    srcroot = os.path.join(REPO, "src")
    for line in text.splitlines():
        fm = _FRAME.match(line)
        if not fm:
            continue
        f, path = fm.group(2), fm.group(3)
        if ("celma::" in f) or (path and path.startswith(srcroot)):
            func = _short_func(f)
            break
    return kind or "crash:unknown", func or "?"


# ---------------------------------------------------------------- progress file (crash continuation)

PROGRESS_SIZE = 4096


def new_progress(tag):
    p = os.path.join(scratch(), "progress-%s-%d" % (tag, time.time_ns()))
    with open(p, "wb") as fh:
        fh.write(b"\0" * PROGRESS_SIZE)
    return p


def read_progress(path):
    """-> (case index or None, descriptor)"""
    try:
        with open(path, "rb") as fh:
            data = fh.read(PROGRESS_SIZE)
    except OSError:
        return None, ""
    valid, idx = struct.unpack_from("<QQ", data, 0)
    if valid != 0x56455249:   # 'VERI'
        return None, ""
    d = data[16:]
    d = d.split(b"\0", 1)[0]
    return idx, d.decode("utf-8", "replace")


# ---------------------------------------------------------------- worker runs

class WorkerResult:
    def __init__(self):
        self.stats = {}
        self.samples = []
        self.viols = []      # (key, detail, idx)
        self.crashes = []    # dict(kind, func, idx, descr, report)
        self.hangs = []      # dict(idx, descr)
        self.infra = []      # infrastructure problems (strings)
        self.hashes = set()
        self.hash_overflow = False
        self.done = False

    def merge(self, o):
        for k, v in o.stats.items():
            self.stats[k] = self.stats.get(k, 0) + v
        self.samples += o.samples
        self.viols += o.viols
        self.crashes += o.crashes
        self.hangs += o.hangs
        self.infra += o.infra
        self.hashes |= o.hashes
        self.hash_overflow |= o.hash_overflow


def parse_worker_stdout(out, res):
    done = False
    for line in out.splitlines():
        if line.startswith("STAT "):
            _, k, v = line.split(" ", 2)
            try:
                res.stats[k] = res.stats.get(k, 0) + int(v)
            except ValueError:
                pass
        elif line.startswith("SAMPLE "):
            if len(res.samples) < 64:
                res.samples.append(line[7:])
        elif line.startswith("VIOL "):
            body = line[5:]
            parts = body.split("\t")
            key = parts[0]
            idx = parts[1] if len(parts) > 1 else ""
            detail = parts[2] if len(parts) > 2 else ""
            res.viols.append((key, detail, idx))
        elif line.startswith("DONE"):
            done = True
    return done


def _read_hashes(path, res):
    try:
        with open(path, "rb") as fh:
            data = fh.read()
        os.unlink(path)
    except OSError:
        return
    n = len(data) // 8
    if n:
        res.hashes.update(struct.unpack("<%dQ" % n, data[:n * 8]))


def run_worker(exe, args, flavour, first, count, tag, timeout, env_extra=None, max_restarts=200,
               cwd=None):
    """Runs `exe args --start s --count c --progress F --hashes H`, restarting after
    the case that made a sanitizer abort the process.  Returns WorkerResult."""
    res = WorkerResult()
    start, end = first, first + count
    restarts = 0
    hang_retry = {}
    while start < end:
        prog = new_progress(tag)
        hpath = prog + ".hashes"
        argv = [exe] + list(args) + ["--start", str(start), "--count", str(end - start),
                                     "--progress", prog, "--hashes", hpath]
        env = flavour_env(flavour, env_extra)
        t0 = time.time()
        try:
            p = subprocess.run(argv, stdout=subprocess.PIPE, stderr=subprocess.PIPE, env=env,
                               timeout=timeout, cwd=cwd)
            out = p.stdout.decode("utf-8", "replace")
            err = p.stderr.decode("utf-8", "replace")
            rc = p.returncode
            timed_out = False
        except subprocess.TimeoutExpired as e:
            out = (e.stdout or b"").decode("utf-8", "replace")
            err = (e.stderr or b"").decode("utf-8", "replace")
            rc, timed_out = -9, True
        done = parse_worker_stdout(out, res)
        _read_hashes(hpath, res)
        idx, descr = read_progress(prog)
        try:
            os.unlink(prog)
        except OSError:
            pass
        if done and rc == 0 and not timed_out:
            res.done = True
            break
        if timed_out:
            if idx is None:
                res.infra.append("timeout before first case (%s)" % tag)
                break
            n = hang_retry.get(idx, 0) + 1
            hang_retry[idx] = n
            if n >= 2:
                res.hangs.append(dict(idx=idx, descr=descr))
                start = idx + 1
            else:
                start = idx      # re-run once from the same case
            restarts += 1
            if restarts > max_restarts:
                res.infra.append("too many restarts (%s)" % tag)
                break
            continue
        # abnormal end
        if idx is None:
            res.infra.append("worker %s died before its first case rc=%s: %s" % (tag, rc, err[-1500:]))
            break
        kind, func = classify_report(err)
        res.crashes.append(dict(kind=kind, func=func, idx=idx, descr=descr, report=err[-6000:], rc=rc))
        start = idx + 1
        restarts += 1
        if restarts > max_restarts:
            res.infra.append("too many restarts (%s)" % tag)
            break
    else:
        res.done = True
    return res


def run_pool(exe, base_args, flavour, total_cases, tag, nworkers=None, timeout=900, env_extra=None,
             cwd=None):
    """splits [0,total_cases) over workers; every worker gets --worker k --nworkers n."""
    nworkers = nworkers or NCPU
    nworkers = max(1, min(nworkers, total_cases))
    per = (total_cases + nworkers - 1) // nworkers
    jobs = []
    for k in range(nworkers):
        first = k * per
        cnt = min(per, total_cases - first)
        if cnt <= 0:
            continue
        jobs.append((k, first, cnt))

    def one(j):
        k, first, cnt = j
        return run_worker(exe, list(base_args) + ["--worker", str(k), "--nworkers", str(nworkers)],
                          flavour, first, cnt, "%s-w%d" % (tag, k), timeout, env_extra, cwd=cwd)
    total = WorkerResult()
    with ThreadPoolExecutor(max_workers=len(jobs)) as ex:
        for r in ex.map(one, jobs):
            total.merge(r)
    return total


# ---------------------------------------------------------------- known findings

KF_FILE = os.path.join(VERIF, "KNOWN_FINDINGS.txt")


def load_known_findings(prop):
    """-> list of (key_regex, text) for `finding:` lines of this property."""
    out = []
    try:
        lines = open(KF_FILE).read().splitlines()
    except OSError:
        return out
    for ln in lines:
        ln = ln.strip()
        if not ln.startswith("finding:"):
            continue
        m = re.match(r"finding:\s+property=(\S+)\s+key=(\S+)\s+(.*)$", ln)
        if not m or m.group(1) != prop:
            continue
        out.append((m.group(2), m.group(3)))
    return out


def match_known(key, known):
    for pat, text in known:
        if pat == key:
            return text
        if "*" in pat:
            rx = "^" + ".*".join(re.escape(p) for p in pat.split("*")) + "$"
            if re.match(rx, key):
                return text
    return None


# ---------------------------------------------------------------- check context

class Check:
    def __init__(self, prop, tier, seed, level="exploration"):
        self.prop, self.tier, self.seed, self.level = prop, tier, seed, level
        self.t0 = time.time()
        self.coverage = {"evaluations": 0, "distinct_nontrivial": 0, "rule": "", "samples": []}
        self.assumptions = []
        self.violations = []     # dict(key, detail, replay)
        self.known_hits = {}     # text -> count
        self.infra = []
        self.known = load_known_findings(prop)
        self.counters = {}
        self._replay_n = 0

    # -- bookkeeping
    def count(self, name, n=1):
        self.counters[name] = self.counters.get(name, 0) + n

    def add_stats(self, stats, prefix=""):
        for k, v in stats.items():
            self.count(prefix + k, v)

    def report(self, key, detail, replay_obj):
        """a refuting observation with its stable key; goes through known-findings matching"""
        full = "%s|%s" % (self.prop, key)
        text = match_known(full, self.known)
        if text is not None:
            self.known_hits.setdefault(text, [0, full])[0] += 1
            return
        for v in self.violations:
            if v["key"] == full:
                v["count"] += 1
                return
        rdir = os.environ.get("VERIF_REPLAY_DIR") or os.path.join(VERIF, "replay")
        os.makedirs(rdir, exist_ok=True)
        self._replay_n += 1
        path = os.path.join(rdir, "%s-%s-s%d-%03d.json" % (self.prop, self.tier, self.seed, self._replay_n))
        obj = dict(replay_obj)
        obj.update(property=self.prop, key=full, detail=detail, seed=self.seed, tier=self.tier)
        with open(path, "w") as fh:
            json.dump(obj, fh, indent=1)
        self.violations.append(dict(key=full, detail=detail, replay=path, count=1))

    def absorb(self, res, mode, replay_base):
        """take a WorkerResult: stats, samples, violations, crashes, hangs"""
        self.add_stats(res.stats, mode + ".")
        for s in res.samples:
            if len(self.coverage["samples"]) < 12:
                self.coverage["samples"].append("%s: %s" % (mode, s))
        for key, detail, idx in res.viols:
            rb = dict(replay_base, mode=mode, idx=idx)
            self.report("%s|%s" % (mode, key), detail, rb)
        for c in res.crashes:
            op = c["descr"].split(" ")[0] if c["descr"] else "?"
            key = "%s|%s|%s|%s" % (mode, op, c["kind"], c["func"])
            rb = dict(replay_base, mode=mode, idx=c["idx"], descr=c["descr"], report=c["report"])
            self.report(key, c["descr"], rb)
        for h in res.hangs:
            op = h["descr"].split(" ")[0] if h["descr"] else "?"
            self.report("%s|%s|hang" % (mode, op), h["descr"], dict(replay_base, mode=mode, idx=h["idx"], descr=h["descr"]))
        self.infra += res.infra

    # -- finishing
    def finish(self):
        cov = self.coverage
        cov["counters"] = dict(sorted(self.counters.items()))
        ev = {
            "property_id": self.prop, "tier": self.tier, "seed": self.seed, "level": self.level,
            "coverage": cov, "assumptions": self.assumptions,
            "wall_s": round(time.time() - self.t0, 2),
            "violations": len(self.violations),
            "known_findings_hit": {t: c[0] for t, c in self.known_hits.items()},
            "repo": REPO, "tree_hash": tree_hash(),
        }
        inconclusive = list(self.infra)
        if not self.violations:
            if cov["evaluations"] < 1 or cov["distinct_nontrivial"] < 2:
                inconclusive.append("monitors observed nothing (evaluations=%s distinct=%s)" % (cov["evaluations"], cov["distinct_nontrivial"]))
        if inconclusive:
            ev["inconclusive"] = inconclusive[:20]
        os.makedirs(os.path.join(VERIF, "evidence"), exist_ok=True)
        evp = os.path.join(VERIF, "evidence", "%s.json" % self.prop)
        if os.environ.get("VERIF_EVIDENCE_DIR"):
            os.makedirs(os.environ["VERIF_EVIDENCE_DIR"], exist_ok=True)
            evp = os.path.join(os.environ["VERIF_EVIDENCE_DIR"], "%s.json" % self.prop)
        tmp = evp + ".tmp%d" % os.getpid()
        with open(tmp, "w") as fh:
            json.dump(ev, fh, indent=1, sort_keys=False)
            fh.write("\n")
        os.replace(tmp, evp)
        for text, (n, full) in sorted(self.known_hits.items()):
            print("KNOWN-FINDING: property=%s %s  [key=%s, hit %d times]" % (self.prop, text, full, n))
        for v in self.violations:
            print("VIOLATION property=%s replay=%s" % (self.prop, v["replay"]))
            print("  key=%s  (x%d)  %s" % (v["key"], v["count"], v["detail"][:300]))
        print("%s %s seed=%d: evaluations=%d distinct_nontrivial=%d violations=%d known=%d wall=%.1fs" % (
            self.prop, self.tier, self.seed, cov["evaluations"], cov["distinct_nontrivial"],
            len(self.violations), len(self.known_hits), time.time() - self.t0))
        if self.violations:
            return EXIT_VIOLATION
        if inconclusive:
            for i in inconclusive[:10]:
                print("INCONCLUSIVE: %s" % i[:2000])
            return EXIT_HARNESS
        return EXIT_OK
