#!/bin/bash
# runs every claimed check once (tier = $1, default quick); prints one summary line per check
tier=${1:-quick}
cd "$(dirname "$0")"
for p in $(cat lib/ready.txt); do
  s=$(date +%s)
  out=$(./check $p --tier $tier 2>&1)
  rc=$?
  e=$(date +%s)
  echo "$p rc=$rc wall=$((e-s))s $(echo "$out" | grep -c '^VIOLATION') violations $(echo "$out" | grep -c '^KNOWN-FINDING') known | $(echo "$out" | grep "seed=" | tail -1)"
  if [ $rc -ne 0 ]; then echo "$out" | grep -v "^\[verif" | tail -8 | cut -c1-400; fi
done
